"""C15 - bad input fails cleanly (DESIGN §C15): fault enumeration on valid documents."""
import copy
import io
import json
import time
import warnings
import xml.sax
import xml.sax.handler

from hypothesis import strategies as st
from lxml import etree

from checks import c01
from vlib import infoset as I
from vlib import models as M
from vlib.core import Collector, Failure, exc_sig, hyp_campaign

ID = "C15"
LEVEL = "fault_enumeration"
RULE = ("Hypothesis draws a model and an instance; xsdata's own XML / JSON / dict image of it (<= 2 KB) is the valid "
        "document. Every single-point fault of these families is applied, one at a time, and the result parsed with the "
        "lxml handler, the pure-Python handler, JsonParser and DictDecoder: truncation at EVERY byte offset (exhaustive per "
        "document); at every k-th byte: flip low bit, flip high bit, overwrite with '<', '&', NUL; per element: delete, "
        "duplicate, retag to a sibling's / an unknown name, move to the end, swap with the next sibling, wrap in an unknown "
        "element; per attribute and per text value: a hostile replacement set (empty, blanks, wrong type, huge number, NaN, "
        "unbalanced QName, 64 KB string, markup); junk appended after / prepended before the root element; xsi:type -> unknown / unbound prefix / wrong class / builtin; xsi:nil on any "
        "element, with and without content; undeclared prefix; wrong root; random byte strings; for JSON/dict: each value "
        "replaced by every other JSON shape, key deletion, duplication, top-level scalars/arrays/null, truncation, invalid "
        "UTF-8; in half of the documents one parser instance is reused for the valid document and all its faulted variants. Oracle: the call returns an instance of the requested class (or a list of them) or raises one of "
        "ParserError / ConverterError / XmlContextError / XmlHandlerError within 10 s; and a document that two independent "
        "parsers (libxml2 strict, expat) both reject must be rejected by the pure-Python handler. Non-trivial = the fault "
        "lies inside the root element; distinct by (document fingerprint, fault).")
ASSUMPTIONS = [
    "the documented error types are xsdata.exceptions.ParserError, ConverterError, XmlContextError, XmlHandlerError",
    "the lxml handler parses with recover=True by design, so it may accept malformed documents; only the pure-Python "
    "handler is required to reject what both libxml2 (strict) and expat reject",
    "a run time above 10 s is re-measured alone before it counts",
]

from xsdata.exceptions import ConverterError, ParserError, XmlContextError, XmlHandlerError  # noqa: E402
from xsdata.formats.dataclass.context import XmlContext  # noqa: E402
from xsdata.formats.dataclass.parsers import DictDecoder, JsonParser, XmlParser  # noqa: E402
from xsdata.formats.dataclass.parsers.config import ParserConfig  # noqa: E402
from xsdata.formats.dataclass.serializers import DictEncoder, XmlSerializer  # noqa: E402
from xsdata.formats.dataclass.serializers.config import SerializerConfig  # noqa: E402

ALLOWED = (ParserError, ConverterError, XmlContextError, XmlHandlerError)
OPTS = M.Opts(cr=False, max_fields=4, max_depth=2)
OPTS_JSON = M.Opts(cr=False, max_fields=4, max_depth=2, json_safe=True, wrapper_odds=1)
HOSTILE = ["", "   ", "abc", "1e999999", "NaN", "-", "a:b:c", ":x", "unk:name", "<![CDATA[x]]>", "9" * 400, "x" * 65536, "true", "2021-02-30",
           "é中", "0x10", "1_000"]
JSON_SHAPES = [None, True, 0, -1.5, "s", "", [], [None], [1, "a"], {}, {"a": 1}, {"a": {"b": [{}]}}, [[]], 10**30]
XSI = "http://www.w3.org/2001/XMLSchema-instance"


@st.composite
def cases(draw):
    route = draw(st.sampled_from(["xml", "json"]))
    mi = draw(M.model_and_instance(OPTS_JSON if route == "json" else OPTS))
    mi["route"] = route
    mi["stride"] = draw(st.integers(1, 7))
    mi["random"] = [draw(st.binary(max_size=40)).hex() for _ in range(3)]
    mi["lenient"] = draw(st.booleans())
    mi["reuse"] = draw(st.booleans())      # one parser instance for the valid document and all its faulted variants
    return mi


# ---------------------------------------------------------------------------
# fault generators (each yields a JSON-able fault description)


def xml_faults(doc: bytes, stride, randoms):
    n = len(doc)
    for at in range(0, n + 1):
        yield {"kind": "truncate", "at": at}
    for at in range(0, n, stride):
        for op in ("low", "high", "lt", "amp", "nul", "gt", "quote"):
            yield {"kind": "flip", "at": at, "op": op}
    root = I.parse_strict(doc)
    els = list(root.iter("*"))
    for i, el in enumerate(els):
        ops = ["delete", "duplicate", "retag-unknown", "wrap", "nil", "nil-false", "xsi-unknown", "xsi-unbound", "xsi-builtin",
               "xsi-wrongclass", "undeclared-prefix", "add-child-text", "clear"]
        if el.getnext() is not None:
            ops += ["swap", "move-end", "retag-sibling"]
        for op in ops:
            if i == 0 and op in ("delete", "duplicate", "swap", "move-end", "wrap"):
                continue
            yield {"kind": "struct", "idx": i, "op": op}
        for h in range(len(HOSTILE)):
            if (el.text or "").strip() or len(el) == 0:
                yield {"kind": "value", "idx": i, "attr": None, "new": h}
        for a in list(el.attrib):
            for h in range(0, len(HOSTILE), 2):
                yield {"kind": "value", "idx": i, "attr": a, "new": h}
            yield {"kind": "attr-delete", "idx": i, "attr": a}
    yield {"kind": "wrong-root"}
    for k in range(len(SUFFIXES)):
        yield {"kind": "append", "suffix": k}
    for k in range(len(PREFIXES)):
        yield {"kind": "prepend", "prefix": k}
    for r in randoms:
        yield {"kind": "random", "bytes": r}


SUFFIXES = [b"x", b"<", b"</a>", b"<b/>", None, b"\n<!-- c -->x", b"&amp;", b"\x00", b"]]>", b"<?pi?><c></c>"]
PREFIXES = [b"x", b"<a/>", b"\xef\xbb\xbf\xef\xbb\xbf", b"<!DOCTYPE x [<!ENTITY e 'v'>]>", b"<?xml version='1.0'?><?xml version='1.0'?>"]


def apply_xml(doc: bytes, f):
    k = f["kind"]
    if k == "truncate":
        return doc[:f["at"]]
    if k == "append":
        sfx = SUFFIXES[f["suffix"]]
        return doc + (doc if sfx is None else sfx)
    if k == "prepend":
        return PREFIXES[f["prefix"]] + doc
    if k == "flip":
        b = bytearray(doc)
        at = f["at"]
        b[at] = {"low": b[at] ^ 1, "high": b[at] ^ 0x80, "lt": 0x3C, "amp": 0x26, "nul": 0, "gt": 0x3E, "quote": 0x22}[f["op"]]
        return bytes(b)
    if k == "random":
        return bytes.fromhex(f["bytes"])
    root = I.parse_strict(doc)
    if k == "wrong-root":
        root.tag = "{urn:wrong}root"
        return etree.tostring(root, encoding="utf-8")
    els = list(root.iter("*"))
    el = els[f["idx"]]
    if k == "value":
        new = HOSTILE[f["new"]]
        if f["attr"] is None:
            for c in list(el):
                el.remove(c)
            el.text = new
        else:
            el.set(f["attr"], new)
    elif k == "attr-delete":
        del el.attrib[f["attr"]]
    else:
        op = f["op"]
        parent = el.getparent()
        if op == "delete":
            parent.remove(el)
        elif op == "duplicate":
            el.addnext(copy.deepcopy(el))
        elif op == "retag-unknown":
            el.tag = "{urn:unknown}zzz"
        elif op == "retag-sibling":
            el.tag = el.getnext().tag
        elif op == "swap":
            nxt = el.getnext()
            nxt.addnext(el)
        elif op == "move-end":
            parent.append(el)
        elif op == "wrap":
            w = etree.Element("wrapperzz")
            el.addprevious(w)
            w.append(el)
        elif op == "nil":
            el.set("{%s}nil" % XSI, "true")
        elif op == "nil-false":
            el.set("{%s}nil" % XSI, "false")
        elif op == "xsi-unknown":
            el.set("{%s}type" % XSI, "NoSuchType")
        elif op == "xsi-unbound":
            el.set("{%s}type" % XSI, "nope:Thing")
        elif op == "xsi-builtin":
            etree.register_namespace("xs", "http://www.w3.org/2001/XMLSchema")
            el.set("{%s}type" % XSI, "xs:hexBinary")
            el.set("{http://www.w3.org/2000/xmlns/}dummy", "x") if False else None
        elif op == "xsi-wrongclass":
            el.set("{%s}type" % XSI, root.tag.rsplit("}", 1)[-1])
        elif op == "add-child-text":
            el.text = (el.text or "") + "stray"
            if len(el):
                el[-1].tail = "tail text"
        elif op == "clear":
            for c in list(el):
                el.remove(c)
            el.text = None
        elif op == "undeclared-prefix":
            data = etree.tostring(root, encoding="utf-8")
            name = el.tag.rsplit("}", 1)[-1].encode()
            return data.replace(b"<" + name, b"<undeclared:" + name, 1) if data.count(b"<" + name) else data
    data = etree.tostring(root, encoding="utf-8")
    if k == "struct" and f["op"] == "xsi-builtin":
        data = data.replace(b">", b' xmlns:xs="http://www.w3.org/2001/XMLSchema">', 1) if b'xmlns:xs=' not in data else data
    return data


def malformed_for_both(data: bytes):
    """True if libxml2 (strict) and expat both reject the document."""
    try:
        etree.fromstring(data, I.STRICT)
        return False
    except Exception:
        pass
    p = xml.sax.make_parser()
    p.setFeature(xml.sax.handler.feature_namespaces, True)
    p.setFeature(xml.sax.handler.feature_external_ges, False)
    p.setContentHandler(xml.sax.handler.ContentHandler())
    try:
        p.parse(io.BytesIO(data))
        return False
    except Exception:
        return True


# ---------------------------------------------------------------------------


_PARSERS = {}


def run_xml(model, data, handler, lenient, reuse_key=None):
    cfg = ParserConfig(fail_on_unknown_properties=not lenient, fail_on_unknown_attributes=not lenient,
                       fail_on_converter_warnings=not lenient)
    if reuse_key is not None:
        p = _PARSERS.get((reuse_key, handler))
        if p is None:
            _PARSERS.clear()
            p = _PARSERS.setdefault((reuse_key, handler), XmlParser(context=XmlContext(), handler=c01.HANDLERS[handler], config=cfg))
    else:
        p = XmlParser(context=XmlContext(), handler=c01.HANDLERS[handler], config=cfg)
    t0 = time.monotonic()
    try:
        with warnings.catch_warnings():
            warnings.simplefilter("ignore")
            out = p.from_bytes(data, model.root)
        return ("ok", out, time.monotonic() - t0)
    except ALLOWED as e:
        return ("clean", e, time.monotonic() - t0)
    except Exception as e:
        return ("leak", e, time.monotonic() - t0)


def judge_xml(case, model, doc, fault, col, labels):
    fails = []
    try:
        data = apply_xml(doc, fault)
    except Exception as e:
        raise RuntimeError(f"fault generator crashed on {fault}: {e!r}")
    if data == doc:
        col.label("fault-noop")
        return fails
    inside = fault["kind"] not in ("random", "wrong-root") and not (fault["kind"] == "truncate" and fault["at"] in (0, len(doc)))
    col.case((case["_fp"], fault, case["lenient"]), inside, labels=labels + [f"fault:{fault['kind']}" + (":" + fault["op"] if "op" in fault else "")],
             sample={"document": doc.decode("utf-8", "replace")[:600], "fault": fault, "faulted": data.decode("utf-8", "replace")[:600]})
    both_reject = None
    for handler in ("lxml", "native"):
        rk = case["_fp"] if case.get("reuse") else None
        status, res, dt = run_xml(model, data, handler, case["lenient"], rk)
        if dt > 10:
            status2, res2, dt2 = run_xml(model, data, handler, case["lenient"], rk)
            if dt2 > 10:
                fails.append(Failure(f"slow/{handler}", f"{dt2:.1f}s on {len(data)} bytes, fault {fault}", dict(case_of(case), fault=fault)))
        if status == "leak":
            fails.append(Failure(exc_sig(f"leak/xml-{handler}", res), f"{type(res).__name__}: {res}\nfault: {fault}\ninput: {data[:1500]!r}\nmodel:\n{model.src}", dict(case_of(case), fault=fault)))
        elif status == "ok":
            if not isinstance(res, model.root) and not _is_derived(res, model.root):
                fails.append(Failure(f"wrong-return-type/xml-{handler}", f"returned {type(res).__name__}: {res!r}\nfault: {fault}\ninput: {data[:800]!r}", dict(case_of(case), fault=fault)))
            if handler == "native":
                if both_reject is None:
                    both_reject = malformed_for_both(data)
                if both_reject:
                    fails.append(Failure("native-accepts-malformed", f"libxml2 and expat reject this document, the pure python handler returned {res!r}\nfault: {fault}\ninput: {data[:1500]!r}", dict(case_of(case), fault=fault)))
    return fails


def _is_derived(res, root):
    from xsdata.formats.dataclass.models.generics import DerivedElement
    return isinstance(res, DerivedElement) and isinstance(res.value, root)


def case_of(case):
    return {k: v for k, v in case.items() if not k.startswith("_")}


# ---------------------------------------------------------------------------
# JSON / dict


def json_paths(x, path=()):
    yield path
    if isinstance(x, dict):
        for k, v in x.items():
            yield from json_paths(v, path + (k,))
    elif isinstance(x, list):
        for i, v in enumerate(x):
            yield from json_paths(v, path + (i,))


def json_faults(enc, text: bytes, stride, randoms):
    for p in json_paths(enc):
        for s in range(len(JSON_SHAPES)):
            yield {"kind": "json-replace", "path": list(p), "shape": s}
        if p:
            yield {"kind": "json-delete", "path": list(p)}
    for s in range(len(JSON_SHAPES)):
        yield {"kind": "json-top", "shape": s}
    for at in range(0, len(text) + 1, 1):
        yield {"kind": "json-truncate", "at": at}
    for at in range(0, len(text), stride):
        for op in ("high", "nul", "quote", "brace"):
            yield {"kind": "json-flip", "at": at, "op": op}
    yield {"kind": "json-dupkey"}
    for r in randoms:
        yield {"kind": "json-random", "bytes": r}


def apply_json(enc, text, f):
    """-> ("obj", python structure) | ("bytes", data)"""
    k = f["kind"]
    if k == "json-top":
        return ("obj", JSON_SHAPES[f["shape"]])
    if k == "json-truncate":
        return ("bytes", text[:f["at"]])
    if k == "json-flip":
        b = bytearray(text)
        b[f["at"]] = {"high": b[f["at"]] ^ 0x80, "nul": 0, "quote": 0x22, "brace": 0x7D}[f["op"]]
        return ("bytes", bytes(b))
    if k == "json-random":
        return ("bytes", bytes.fromhex(f["bytes"]))
    if k == "json-dupkey":
        return ("bytes", text.replace(b"{", b'{"zz": 1, "zz": 2, ', 1))
    data = copy.deepcopy(enc)
    path = f["path"]
    if not path:
        return ("obj", JSON_SHAPES[f["shape"]]) if k == "json-replace" else ("obj", data)
    cur = data
    for step in path[:-1]:
        cur = cur[step]
    if k == "json-replace":
        cur[path[-1]] = JSON_SHAPES[f["shape"]]
    else:
        del cur[path[-1]]
    return ("obj", data)


_DECODERS = {}


def run_json(model, payload, lenient, route, reuse_key=None):
    cfg = ParserConfig(fail_on_unknown_properties=not lenient, fail_on_unknown_attributes=not lenient,
                       fail_on_converter_warnings=not lenient)

    def make():
        return DictDecoder(context=XmlContext(), config=cfg) if route == "dict" else JsonParser(context=XmlContext(), config=cfg)
    if reuse_key is not None:
        dcd = _DECODERS.get((reuse_key, route))
        if dcd is None:
            if len(_DECODERS) > 4:
                _DECODERS.clear()
            dcd = _DECODERS.setdefault((reuse_key, route), make())
    else:
        dcd = make()
    t0 = time.monotonic()
    try:
        with warnings.catch_warnings():
            warnings.simplefilter("ignore")
            if route == "dict":
                out = dcd.decode(payload, model.root)
            else:
                out = dcd.from_bytes(payload, model.root)
        return ("ok", out, time.monotonic() - t0)
    except ALLOWED as e:
        return ("clean", e, time.monotonic() - t0)
    except Exception as e:
        return ("leak", e, time.monotonic() - t0)


def judge_json(case, model, enc, text, fault, col, labels):
    fails = []
    kind, payload = apply_json(enc, text, fault)
    runs = []
    if kind == "obj":
        if isinstance(payload, (dict, list)):
            runs.append(("dict", copy.deepcopy(payload)))
        try:
            runs.append(("json", json.dumps(payload).encode()))
        except Exception:
            pass
    else:
        runs.append(("json", payload))
    col.case((case["_fp"], fault, case["lenient"]), fault["kind"] not in ("json-random",),
             labels=labels + [f"fault:{fault['kind']}"],
             sample={"document": text.decode()[:500], "fault": fault,
                     "faulted": (json.dumps(payload)[:500] if kind == "obj" else payload.decode("utf-8", "replace")[:500])})
    for route, pl in runs:
        status, res, dt = run_json(model, pl, case["lenient"], route, case["_fp"] if case.get("reuse") else None)
        if status == "leak":
            fails.append(Failure(exc_sig(f"leak/{route}", res), f"{type(res).__name__}: {res}\nfault: {fault}\ninput: {(pl if isinstance(pl, bytes) else json.dumps(pl).encode())[:1200]!r}\nmodel:\n{model.src}",
                                 dict(case_of(case), fault=fault)))
        elif status == "ok":
            ok = isinstance(res, model.root) or (isinstance(res, list) and all(isinstance(r, model.root) for r in res))
            if not ok:
                fails.append(Failure(f"wrong-return-type/{route}", f"returned {type(res).__name__}: {res!r}\nfault: {fault}", dict(case_of(case), fault=fault)))
        if dt > 10:
            fails.append(Failure(f"slow/{route}", f"{dt:.1f}s, fault {fault}", dict(case_of(case), fault=fault)))
    return fails


# ---------------------------------------------------------------------------


def execute(case, col):
    try:
        model = M.Model(case["spec"])
    except Exception as e:
        raise RuntimeError(f"generator produced an invalid model: {e!r}\n{M.source(case['spec'], 'x')}")
    try:
        return _execute(case, col, model)
    finally:
        model.dispose()


def _execute(case, col, model):
    from vlib.core import fingerprint
    obj = model.decode(case["inst"])
    case = dict(case)
    case["_fp"] = fingerprint([case["spec"], case["inst"]])
    fails, seen = [], set()
    labels = [f"route:{case['route']}", "lenient" if case["lenient"] else "strict"]

    def add(fs):
        for f in fs:
            if f.sig not in seen:          # one example per signature and document is enough
                seen.add(f.sig)
                fails.append(f)
    if case["route"] == "xml":
        doc = XmlSerializer(context=XmlContext(), config=SerializerConfig(xml_declaration=False)).render(obj).encode("utf-8")
        if len(doc) > 2048:
            col.reject()
            return []
        if case.get("reuse"):
            labels.append("parser-reused")
            for h in ("lxml", "native"):
                run_xml(model, doc, h, case["lenient"], case["_fp"])
        if "fault" in case:
            return judge_xml(case, model, doc, case["fault"], col, labels)
        for fault in xml_faults(doc, case["stride"], case["random"]):
            add(judge_xml(case, model, doc, fault, col, labels))
    else:
        enc = json.loads(json.dumps(DictEncoder(context=XmlContext()).encode(obj)))
        text = json.dumps(enc).encode()
        if len(text) > 2048:
            col.reject()
            return []
        if case.get("reuse"):
            labels.append("parser-reused")
            run_json(model, copy.deepcopy(enc), case["lenient"], "dict", case["_fp"])
            run_json(model, text, case["lenient"], "json", case["_fp"])
        if "fault" in case:
            return judge_json(case, model, enc, text, case["fault"], col, labels)
        for fault in json_faults(enc, text, case["stride"], case["random"]):
            add(judge_json(case, model, enc, text, fault, col, labels))
    return fails


REJECTS_OK = True       # documents above 2 KB are skipped (bound of the statement's fault enumeration), not rejected inputs


def plan(tier, seed):
    n, nsh = {"quick": (160, 16), "thorough": (16000, 64)}[tier]
    return [{"n": n // nsh, "seed": seed * 1000 + i} for i in range(nsh)]


def run_shard(shard, col):
    hyp_campaign(cases(), execute, shard["n"], shard["seed"], col, shrink_budget_s=30, max_shrinks=6)
    col.exhaustive.append("truncation at every byte offset of each generated document")


def replay_case(case):
    return list(execute(case, Collector()) or ())
