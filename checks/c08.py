"""C08 - all backends agree with each other (DESIGN §C08)."""
import io
import os
import shutil
import tempfile
import warnings
from pathlib import Path
from xml.etree import ElementTree as ET

from hypothesis import strategies as st
from lxml import etree

from checks import c01
from vlib import infoset as I
from vlib import models as M
from vlib.codec import deep_eq, first_diff
from vlib.core import Failure, exc_sig, hyp_campaign

ID = "C08"
LEVEL = "exploration"
RULE = ("Hypothesis draws a model, an instance and a serializer configuration (C01's generators). Writers: the lxml writer, "
        "the pure-Python writer and TreeSerializer must produce the same canonical infoset (element/attribute names and "
        "namespaces, attribute values, text; `prefix:local` tokens resolved through the declarations in scope so that prefix "
        "choice does not matter but a missing declaration does; whitespace-only nodes next to children ignored when "
        "indenting). Handlers: the written document - as produced, or rewritten with comments, processing instructions, "
        "CDATA, nested/re-bound prefix declarations - is parsed by {lxml, native} x {bytes, str, path, binary file object, "
        "own-library tree, own-library element}; all results must be structurally equal, or all must raise. Non-trivial = "
        "a namespace declaration below the root or text needing escaping; distinct by fingerprint of (spec, instance, config).")
ASSUMPTIONS = [
    "canonical infoset is computed from an independent strict libxml2 parse (vlib/infoset.py)",
    "ElementTree does not keep prefixes (documented in docs/data_binding/xml_parsing.md): ET tree/element sources are only "
    "compared when the document has no prefixed QName-valued content and no default namespace declaration (an unprefixed QName "
    "value resolves through it) - counted under label et-source-skipped",
    "the lxml handler parses with recover=True by design; only well-formed documents are compared here",
]

from xsdata.formats.dataclass.context import XmlContext  # noqa: E402
from xsdata.formats.dataclass.parsers import XmlParser  # noqa: E402
from xsdata.formats.dataclass.parsers.config import ParserConfig  # noqa: E402
from xsdata.formats.dataclass.serializers import XmlSerializer  # noqa: E402
from xsdata.formats.dataclass.serializers.config import SerializerConfig  # noqa: E402
from xsdata.formats.dataclass.serializers.tree import TreeSerializer  # noqa: E402

OPTS = M.Opts(cr=True)
_scratch = None


def scratch():
    global _scratch
    if _scratch is None or not os.path.isdir(_scratch):
        _scratch = tempfile.mkdtemp(prefix="c08_")
        import atexit
        atexit.register(shutil.rmtree, _scratch, True)
    return _scratch


@st.composite
def cases(draw):
    mi = draw(M.model_and_instance(OPTS))
    mi["cfg"] = draw(c01.configs(M.model_uris(mi["spec"], mi["inst"])))
    mi["decorate"] = draw(st.sampled_from([None, None, "comments", "pi", "both", "comment-in-text", "pi-in-text", "shadow", "shadow"]))
    if mi["decorate"] == "shadow":
        mi["tape"] = draw(st.lists(st.integers(0, 11), min_size=8, max_size=32))
    return mi


def shadowed(spec, case, cfg, xml):
    from vlib import expect as E
    from vlib import rewrite as RW
    try:
        root = I.parse_strict(xml)
        exp = E.Reader(spec, cfg["ignore_default_attributes"]).document(case["inst"])
        tree = RW.annotate(spec, exp, root)
        original = {}
        for el in root.iter("*"):
            for p, u in el.nsmap.items():
                if p:
                    original.setdefault(u, p)
        rw = RW.Rewriter(case["tape"], ["shadow!", "late-declarations"], None)
        data = rw.document(tree, original)
        if "shadow" not in rw.applied:
            return None
        if RW.same(tree, RW.annotate(spec, exp, etree.fromstring(data, I.STRICT))):
            raise RuntimeError("rewriter changed the infoset")
        return data.decode("utf-8")
    except (ValueError, LookupError, StopIteration):
        return None


def decorate(xml, how):
    """Insert comments / PIs between elements (never inside character data of simple content)."""
    if not how:
        return xml
    root = I.parse_strict(xml)
    els = list(root.iter("*"))
    if how in ("comment-in-text", "pi-in-text"):
        mk = (lambda t: etree.Comment(t)) if how == "comment-in-text" else (lambda t: etree.ProcessingInstruction("pi", t))
        # a comment in the middle of character data (simple content, token lists, mixed text and tails)
        for i, el in enumerate(els):
            if el.text and len(el.text) >= 2 and len(el) == 0:
                k = len(el.text) // 2
                c = mk(" split %d " % i)
                c.tail = el.text[k:]
                el.text = el.text[:k]
                el.append(c)
            elif el.tail and len(el.tail) >= 2 and i % 2:
                k = len(el.tail) // 2
                c = mk(" tail %d " % i)
                c.tail = el.tail[k:]
                el.tail = el.tail[:k]
                el.addnext(c)
        return etree.tostring(root, encoding="unicode")
    for i, el in enumerate(els):
        if len(el) == 0:
            continue
        node = etree.Comment(" c%d " % i) if how == "comments" or (how == "both" and i % 2) else etree.ProcessingInstruction("pi%d" % i, "x")
        node.tail = el[0].tail if False else None
        # between the start tag and the first child, only where the parent has no leading text
        if not (el.text or "").strip():
            node.tail = el.text
            el.text = None
            el.insert(0, node)
    return etree.tostring(root, encoding="unicode")


def execute(case, col):
    try:
        model = M.Model(case["spec"])
    except Exception as e:
        raise RuntimeError(f"generator produced an invalid model: {e!r}\n{M.source(case['spec'], 'x')}")
    try:
        return _execute(case, col, model)
    finally:
        model.dispose()


def _execute(case, col, model):
    spec, cfg = case["spec"], case["cfg"]
    obj = model.decode(case["inst"])
    mixedish = c01.has_mixed(spec) or c01.has_wildcard(spec)
    indent = None if mixedish else cfg["indent"]
    ns_map = {k: v for k, v in cfg["ns_map"]} if cfg["ns_map"] else None
    if ns_map and (None in ns_map or "" in ns_map) and (
            M.has_plain_qname([case["inst"], spec["enums"], spec["classes"]]) or M.has_plain_type(spec)):
        ns_map.pop(None, None)
        ns_map.pop("", None)
    scfg = SerializerConfig(indent=indent, xml_declaration=cfg["xml_declaration"], ignore_default_attributes=cfg["ignore_default_attributes"])
    labels = ["indent" if indent else "no-indent", "ns_map" if ns_map else "no-ns_map"]
    fails = []
    outs = {}
    for w in ("lxml", "native"):
        try:
            outs[w] = XmlSerializer(context=XmlContext(), config=scfg, writer=c01.WRITERS[w]).render(obj, ns_map=dict(ns_map) if ns_map else None)
        except Exception as e:
            outs[w] = e
    try:
        tree = TreeSerializer(context=XmlContext(), config=scfg).render(obj, ns_map=dict(ns_map) if ns_map else None)
        outs["tree"] = tree
    except Exception as e:
        outs["tree"] = e
    errs = {k: v for k, v in outs.items() if isinstance(v, Exception)}
    if errs and len(errs) < 3:
        k, e = next(iter(errs.items()))
        col.case((spec, case["inst"], cfg), True, labels=labels)
        return [Failure(exc_sig(f"writer-raises-alone/{k}", e), f"{k} raised {type(e).__name__}: {e} while others returned\nobject: {obj!r}\nmodel:\n{model.src}", case)]
    if errs:
        col.case((spec, case["inst"], cfg), False, labels=labels + ["all-writers-raise"])
        return []
    try:
        canon = {w: I.canon_doc(outs[w], strip_ws=bool(indent), resolve=True) for w in ("lxml", "native")}
        canon["tree"] = I.canon(outs["tree"].getroot(), strip_ws=bool(indent), resolve=True)
    except etree.XMLSyntaxError as e:
        col.case((spec, case["inst"], cfg), True, labels=labels)
        return [Failure("writer-not-wellformed", f"{e}\nlxml: {outs['lxml']}\nnative: {outs['native']}\nmodel:\n{model.src}", case)]
    xml = outs["native"]
    nontrivial = xml.count("xmlns") > 1 or "&" in xml
    col.case((spec, case["inst"], cfg, case["decorate"]), nontrivial, labels=labels,
             sample={"model": model.src.split("import upper, suffix, cap\n")[-1], "instance": repr(obj)[:1200], "config": cfg,
                     "lxml_writer": outs["lxml"][:1500], "native_writer": outs["native"][:1500]})
    if canon["lxml"] != canon["native"]:
        fails.append(Failure("writers-differ", f"{I.diff(canon['lxml'], canon['native'])}\nlxml:   {outs['lxml']}\nnative: {outs['native']}\nmodel:\n{model.src}", case))
    if canon["tree"] != canon["lxml"]:
        fails.append(Failure("tree-serializer-differs", f"{I.diff(canon['lxml'], canon['tree'])}\nlxml: {outs['lxml']}\ntree: {etree.tostring(outs['tree'], encoding='unicode')}\nmodel:\n{model.src}", case))

    # ---- handlers x sources ------------------------------------------------
    if case["decorate"] == "shadow":
        # the same document with prefixes re-bound for the extent of single elements (vlib/rewrite.py, kinds shadow + late-declarations)
        doc = shadowed(spec, case, cfg, outs["lxml"]) or outs["lxml"]
        col.label("decorated:shadow" if doc is not outs["lxml"] else "decorated:shadow-not-applicable")
    else:
        doc = decorate(outs["lxml"], case["decorate"])
        if case["decorate"]:
            col.label("decorated:" + case["decorate"])
    data = doc.encode("utf-8")
    if doc.lstrip().startswith("<?xml"):
        doc_text = doc
    else:
        doc_text = doc
    path = Path(scratch()) / f"doc_{os.getpid()}.xml"
    path.write_bytes(data)
    pcfg = ParserConfig(fail_on_unknown_properties=True, fail_on_unknown_attributes=True, fail_on_converter_warnings=True)
    prefixed_content = _has_prefixed_content(outs["lxml"]) or (case["decorate"] == "shadow" and _has_prefixed_content(doc))
    # a pre-parsed lxml tree that still holds comment / PI nodes inside character data loses the text behind them
    # (recorded finding): tree sources are built the way the handler itself reads serialized documents
    tree_parser = etree.XMLParser(recover=False, remove_comments=True, remove_pis=True) if not case.get("no_guards") else I.STRICT
    results = {}

    def run(name, handler, fn):
        try:
            with warnings.catch_warnings():
                warnings.simplefilter("error")
                parser = XmlParser(context=XmlContext(), handler=c01.HANDLERS[handler], config=pcfg)
                results[name] = ("ok", fn(parser))
        except Exception as e:
            results[name] = ("err", e)

    for h in ("lxml", "native"):
        run(f"{h}/bytes", h, lambda p: p.from_bytes(data, type(obj)))
        run(f"{h}/str", h, lambda p: p.from_string(doc_text, type(obj)))
        run(f"{h}/path", h, lambda p: p.from_path(path, type(obj)))
        run(f"{h}/fileobj", h, lambda p: p.parse(io.BytesIO(data), type(obj)))
    run("lxml/tree", "lxml", lambda p: p.parse(etree.ElementTree(etree.fromstring(data, tree_parser)), type(obj)))
    run("lxml/element", "lxml", lambda p: p.parse(etree.fromstring(data, tree_parser), type(obj)))
    if not prefixed_content and 'xmlns="' not in doc:
        run("native/ET-tree", "native", lambda p: p.parse(ET.ElementTree(ET.fromstring(data)), type(obj)))
        run("native/ET-element", "native", lambda p: p.parse(ET.fromstring(data), type(obj)))
    else:
        col.label("et-source-skipped")
    oks = {k: v[1] for k, v in results.items() if v[0] == "ok"}
    errs = {k: v[1] for k, v in results.items() if v[0] == "err"}
    if oks and errs:
        k, e = next(iter(errs.items()))
        fails.append(Failure(exc_sig(f"source-raises-alone/{k}", e), f"{k} raised {type(e).__name__}: {e}; {sorted(oks)} returned\ndocument: {doc}\nmodel:\n{model.src}", case))
    elif oks:
        ref_name = "lxml/bytes" if "lxml/bytes" in oks else next(iter(oks))
        ref = oks[ref_name]
        for k, v in oks.items():
            if not deep_eq(v, ref):
                fails.append(Failure(f"sources-differ/{k}", f"{k} vs {ref_name}: {first_diff(ref, v)}\ndocument: {doc}\nmodel:\n{model.src}", case))
                break
    return fails


def _has_prefixed_content(doc):
    """Does any attribute value or text look like prefix:local with a declared prefix? (then ET sources cannot work)"""
    root = I.parse_strict(doc)
    for el in root.iter("*"):
        for v in list(el.attrib.values()) + [el.text or ""]:
            for tok in v.split():
                m = I._TOKEN.match(tok)
                if m and m.group(1) in el.nsmap:
                    return True
        if any(k.startswith("{http://www.w3.org/2001/XMLSchema-instance}type") for k in el.attrib):
            return True
    return False


def plan(tier, seed):
    n, nsh = {"quick": (5000, 16), "thorough": (200000, 64)}[tier]
    return [{"n": n // nsh, "seed": seed * 1000 + i} for i in range(nsh)]


def run_shard(shard, col):
    hyp_campaign(cases(), execute, shard["n"], shard["seed"], col)


def replay_case(case):
    from vlib.core import Collector
    return list(execute(case, Collector()) or ())
