"""C10 - strictness options do what they say (DESIGN §C10)."""
import copy
import dataclasses as _dc
import typing as _t
import json
import warnings

from hypothesis import strategies as st
from lxml import etree

from checks import c01
from vlib import expect as E
from vlib import infoset as I
from vlib import models as M
from vlib.codec import deep_eq, first_diff
from vlib.core import Failure, exc_sig, hyp_campaign

ID = "C10"
LEVEL = "exploration"
RULE = ("Hypothesis draws a model, an instance, one of the 8 combinations of fail_on_unknown_properties / "
        "fail_on_unknown_attributes / fail_on_converter_warnings, a handler and an injection into the valid document: "
        "(element) 1-2 unknown elements - fresh names, names known elsewhere in the model, any subtree with text, attributes "
        "and depth <= 4 - at a generated child position of a class element without wildcard/text content; (attribute) an "
        "unknown plain or foreign-namespace attribute on a class element without an attribute map; (xsi) xsi:schemaLocation / "
        "xsi:noNamespaceSchemaLocation / an unknown xsi:* attribute; (value) a value its declared type cannot convert; and for "
        "DictDecoder / JsonParser (json-key) an unknown key with any JSON value and (json-value) an unconvertible value. "
        "Oracle = the documented truth table: unknown element -> ParserError iff fail_on_unknown_properties, else the result "
        "equals that of the un-injected document; unknown attribute -> ParserError iff fail_on_unknown_attributes (never for "
        "xsi:*); bad value -> kept as given with a ConverterWarning, or ParserError iff fail_on_converter_warnings. "
        "Non-trivial = injection not at the document end and subtree depth >= 2, or two injections, or a non-element "
        "injection; distinct by fingerprint of (spec, instance, injection, options).")
ASSUMPTIONS = [
    "where unknown content may be injected and which values are typed comes from the ModelSpec via vlib/expect.py",
    "unknown attributes on simple-typed (primitive) elements are only checked in the tolerant direction; the statement "
    "promises failure 'only when enabled', and primitive elements never inspect attributes",
]

from xsdata.exceptions import ConverterWarning, ParserError  # noqa: E402
from xsdata.formats.dataclass.context import XmlContext  # noqa: E402
from xsdata.formats.dataclass.parsers import DictDecoder, JsonParser, XmlParser  # noqa: E402
from xsdata.formats.dataclass.parsers.config import ParserConfig  # noqa: E402
from xsdata.formats.dataclass.serializers import DictEncoder, XmlSerializer  # noqa: E402
from xsdata.formats.dataclass.serializers.config import SerializerConfig  # noqa: E402

OPTS = M.Opts(cr=False)
OPTS_JSON = M.Opts(cr=False, json_safe=True, wildcards=False)
XSI = E.XSI
GARBAGE = "not a value!"


@st.composite
def subtrees(draw, depth=0):
    name = draw(st.sampled_from(["zzz", "unknown", "{urn:zz}zzz", "{urn:a}zzz"]))
    attrs = {k: "v" for k in draw(st.lists(st.sampled_from(["a", "{urn:zz}b", "id"]), max_size=2, unique=True))}
    children = [draw(subtrees(depth + 1)) for _ in range(draw(st.integers(0, 2)))] if depth < 3 else []
    return {"q": name, "attrs": attrs, "text": draw(st.sampled_from([None, "t", " ", "1"])), "children": children,
            "tail": draw(st.sampled_from([None, None, "\n  ", "tail"]))}


@st.composite
def cases(draw):
    fam = draw(st.sampled_from(["element", "element", "attribute", "xsi", "value", "json-key", "json-value"]))
    mi = draw(M.model_and_instance(OPTS_JSON if fam.startswith("json") else OPTS))
    mi["fam"] = fam
    mi["opts"] = [draw(st.booleans()), draw(st.booleans()), draw(st.booleans())]
    mi["handler"] = draw(st.sampled_from(["lxml", "native"]))
    mi["where"] = draw(st.lists(st.integers(0, 50), min_size=2, max_size=4))     # selectors into the candidate lists
    mi["subtrees"] = [draw(subtrees()) for _ in range(draw(st.sampled_from([1, 1, 2])))]
    mi["known_name"] = draw(st.booleans())
    mi["attr"] = draw(st.sampled_from(["zzz", "{urn:zz}zzz", "{urn:a}zz9"]))
    mi["xsi"] = draw(st.sampled_from(["schemaLocation", "noNamespaceSchemaLocation", "foo", "schemaLocation"]))
    mi["json_value"] = draw(st.sampled_from([None, 1, "s", True, [1, 2], {"a": 1}, {"a": {"b": [None]}}, []]))
    mi["route"] = draw(st.sampled_from(["dict", "json"]))
    return mi


def execute(case, col):
    if case.get("fam") == "fixed":
        return execute_fixed(case, col)
    try:
        model = M.Model(case["spec"])
    except Exception as e:
        raise RuntimeError(f"generator produced an invalid model: {e!r}\n{M.source(case['spec'], 'x')}")
    try:
        if case["fam"].startswith("json"):
            return _json(case, col, model)
        return _xml(case, col, model)
    finally:
        model.dispose()


def class_has(spec, cid, kinds):
    return any(f["kind"] in kinds for f in M.all_fields(spec, cid))


def pairs(exp, el, out):
    """(expected node, real element) for every element, in document order."""
    out.append((exp, el))
    real = [c for c in el if isinstance(c.tag, str)]
    exps = [c for c in exp["children"] if "q" in c]
    for e, r in zip(exps, real):
        pairs(e, r, out)


def build(sub):
    el = etree.Element(sub["q"])
    for k, v in sub["attrs"].items():
        el.set(k, v)
    el.text = sub["text"]
    for c in sub["children"]:
        el.append(build(c))
    el.tail = sub["tail"]
    return el


def depth_of(sub):
    return 1 + max([depth_of(c) for c in sub["children"]], default=0)


def config(case, **kw):
    a, b, c = case["opts"]
    return ParserConfig(fail_on_unknown_properties=a, fail_on_unknown_attributes=b, fail_on_converter_warnings=c, **kw)


def parse_xml(case, model, data, cfg):
    """-> ("ok", obj, [warning categories]) | ("err", exception)"""
    p = XmlParser(context=XmlContext(), handler=c01.HANDLERS[case["handler"]], config=cfg)
    with warnings.catch_warnings(record=True) as w:
        warnings.simplefilter("always")
        try:
            obj = p.from_bytes(data, model.root)
        except Exception as e:
            return ("err", e, [])
    return ("ok", obj, [x.category for x in w])


def set_path(inst, path, value):
    """Replace the encoded value at `path` inside an encoded instance (copy)."""
    inst = copy.deepcopy(inst)
    cur = inst
    for i, step in enumerate(path):
        last = i == len(path) - 1
        if isinstance(step, str):
            holder = cur["kw"]
            if last:
                holder[step] = value
                return inst
            cur = holder[step]
        else:
            seq = cur["tup"] if isinstance(cur, dict) and "tup" in cur else cur
            if last:
                seq[step] = value
                return inst
            cur = seq[step]
    return inst


def bad_value_targets(spec, exp, el, out):
    """(kind, real element, attribute name | None, leaf) for leaves whose declared types exclude str."""
    def typed_non_str(leaf):
        ts = leaf.get("types")
        if not ts or leaf["tokens"] or "raw" in leaf:
            return False
        for t in ts:
            if t.get("p") == "str" or "c" in t:
                return False
            if "e" in t and spec["enums"][t["e"]]["base"] == "str":
                return False
        return True
    for k, leaf in exp["attrs"].items():
        if typed_non_str(leaf):
            out.append(("attr", el, k, leaf))
    exps = [c for c in exp["children"] if "q" in c]
    leaves = [c for c in exp["children"] if "q" not in c]
    if len(leaves) == 1 and not exps and typed_non_str(leaves[0]) and not exp["nil"]:
        out.append(("text", el, None, leaves[0]))
    real = [c for c in el if isinstance(c.tag, str)]
    for e, r in zip(exps, real):
        bad_value_targets(spec, e, r, out)


def _xml(case, col, model):
    spec, fam = case["spec"], case["fam"]
    obj = model.decode(case["inst"])
    doc = XmlSerializer(context=XmlContext(), config=SerializerConfig(xml_declaration=False)).render(obj)
    strict = ParserConfig(fail_on_unknown_properties=True, fail_on_unknown_attributes=True, fail_on_converter_warnings=True)
    base = parse_xml(case, model, doc.encode(), strict)
    if base[0] != "ok":
        col.case((spec, case["inst"]), False, labels=["baseline-rejected"])
        return []
    base_obj = base[1]
    root = I.parse_strict(doc)
    exp = E.Reader(spec, False).document(case["inst"])
    pp = []
    pairs(exp, root, pp)
    fail_props, fail_attrs, fail_conv = case["opts"]
    labels = [f"fam:{fam}", f"opts:{int(fail_props)}{int(fail_attrs)}{int(fail_conv)}", f"handler:{case['handler']}"]
    sel = case["where"]
    nontrivial = True
    expect_error = False
    expected_obj = base_obj
    expect_warning = False
    if fam == "element":
        cands = [(e, r) for e, r in pp if e.get("cid") is not None and not e["nil"] and not e["any"]
                 and not class_has(spec, e["cid"], ("Wildcard", "Text"))]
        if not cands:
            col.case((spec, case["inst"], fam), False, labels=labels + ["no-injection-point"])
            return []
        names_elsewhere = sorted({e["q"] for e, _ in pp if e.get("cid") is None and not e.get("wrapper") and not e["any"]})
        at_end = True
        for k, sub in enumerate(case["subtrees"]):
            e, r = cands[sel[k % len(sel)] % len(cands)]
            sub = dict(sub)
            if case["known_name"] and names_elsewhere:
                own = _own_names(spec, e, r)
                other = [n for n in names_elsewhere if _local(n) not in own]
                if other:
                    sub["q"] = other[sel[-1] % len(other)]
                    labels.append("name-known-elsewhere")
            kids = [c for c in r if isinstance(c.tag, str)]
            pos = sel[(k + 1) % len(sel)] % (len(kids) + 1)
            new = build(sub)
            if pos < len(kids):
                at_end = False
                kids[pos].addprevious(new)
            else:
                r.append(new)
        depth = max(depth_of(s) for s in case["subtrees"])
        nontrivial = (not at_end and depth >= 2) or len(case["subtrees"]) >= 2
        labels.append(f"subtree-depth={min(depth, 4)}")
        expect_error = fail_props
    elif fam in ("attribute", "xsi"):
        cands = [(e, r) for e, r in pp if e.get("cid") is not None and not e["any"]
                 and not class_has(spec, e["cid"], ("Attributes",))]
        if not cands:
            col.case((spec, case["inst"], fam), False, labels=labels + ["no-injection-point"])
            return []
        e, r = cands[sel[0] % len(cands)]
        if fam == "attribute":
            name = case["attr"]
            if name in r.attrib or name in e["attrs"]:
                name = "{urn:zz}zzz9"
            r.set(name, "v")
            expect_error = fail_attrs
        else:
            r.set("{%s}%s" % (XSI, case["xsi"]), "urn:x x.xsd")
            expect_error = False
    elif fam == "value":
        targets = []
        bad_value_targets(spec, exp, root, targets)
        if not targets:
            col.case((spec, case["inst"], fam), False, labels=labels + ["no-typed-value"])
            return []
        kind, r, attr, leaf = targets[sel[0] % len(targets)]
        if kind == "attr":
            r.set(attr, GARBAGE)
        else:
            for c in list(r):
                r.remove(c)
            r.text = GARBAGE
        labels.append(f"bad-value:{kind}")
        expect_error = fail_conv
        expect_warning = not fail_conv
        expected_obj = model.decode(set_path(case["inst"], leaf["path"], GARBAGE))
    data = etree.tostring(root, encoding="utf-8")
    col.case((spec, case["inst"], fam, case["opts"], case["where"], case["subtrees"] if fam == "element" else None, case["handler"]),
             nontrivial, labels=labels,
             sample={"model": model.src.split("import upper, suffix, cap\n")[-1], "family": fam, "options(props,attrs,conv)": case["opts"],
                     "handler": case["handler"], "original": doc[:1200], "injected": data.decode()[:1500]})
    got = parse_xml(case, model, data, config(case))
    return judge(case, model, got, expect_error, expect_warning, expected_obj, doc, data.decode(), fam)


def _local(q):
    return q.rsplit("}", 1)[-1]


def _own_names(spec, e, r):
    """Local names the class of expected node e can accept as child elements (whatever the namespace)."""
    out = {_local(c.tag) for c in r if isinstance(c.tag, str)}
    chain, cid = [], e["cid"]
    while cid is not None:
        chain.append(cid)
        cid = spec["classes"][cid]["base"]
    c = spec["classes"][e["cid"]]
    for owner in chain:
        for f in spec["classes"][owner]["fields"]:
            if f["kind"] == "Element":
                out.add(E.field_local_name(c, f, "Element"))
                out.add(E.field_local_name(spec["classes"][owner], f, "Element"))
                if f.get("wrapper"):
                    out.add(f["wrapper"])
            elif f["kind"] == "Elements":
                out |= {ch["name"] for ch in f["choices"]}
    return out


def judge(case, model, got, expect_error, expect_warning, expected_obj, doc, injected, fam):
    ctx = f"options(props,attrs,conv)={case['opts']}\noriginal: {doc[:1500]}\ninjected: {injected[:2000]}\nmodel:\n{model.src}"
    if expect_error:
        if got[0] == "ok":
            return [Failure(f"{fam}/not-rejected", f"parsing succeeded although the option says fail\n{ctx}", case)]
        if not isinstance(got[1], ParserError):
            return [Failure(exc_sig(f"{fam}/wrong-error", got[1]), f"{type(got[1]).__name__}: {got[1]} instead of ParserError\n{ctx}", case)]
        return []
    if got[0] == "err":
        return [Failure(exc_sig(f"{fam}/rejected-although-tolerant", got[1]), f"{type(got[1]).__name__}: {got[1]}\n{ctx}", case)]
    if not deep_eq(got[1], expected_obj):
        return [Failure(f"{fam}/object-changed/" + c01.classify(case, expected_obj, got[1]), f"{first_diff(expected_obj, got[1])}\n{ctx}", case)]
    has_warn = any(issubclass(c, ConverterWarning) for c in got[2])
    if expect_warning and not has_warn:
        return [Failure(f"{fam}/no-warning", f"unconvertible value accepted without a ConverterWarning\n{ctx}", case)]
    if not expect_warning and has_warn:
        return [Failure(f"{fam}/spurious-warning", f"ConverterWarning although nothing unconvertible was injected\n{ctx}", case)]
    return []


# ---------------------------------------------------------------------------
# dictionary / JSON route


def dict_targets(spec, inst, enc, out_keys, out_values, path=(), plain=True):
    """Walk the encoded dictionary in parallel with the encoded instance: model dictionaries (for unknown keys) and
    typed non-string values (for bad values)."""
    if not (isinstance(inst, dict) and isinstance(inst.get("obj"), int) and isinstance(enc, dict)):
        return
    cid = inst["obj"]
    c = spec["classes"][cid]
    if not class_has(spec, cid, ("Attributes",)) and plain:
        out_keys.append(enc)
    names = {}
    for f in M.all_fields(spec, cid):
        if f["kind"] in ("Ignore",):
            continue
        if f["kind"] in ("Attribute", "Element"):
            key = f.get("wrapper") or E.field_local_name(c, f, f["kind"])
        else:
            gen = E.GENS.get(c["meta"].get("elem_gen"))
            key = gen(f["py"]) if gen else f["py"]
        names[f["py"]] = (key, f)
    for py, v in inst["kw"].items():
        if py not in names:
            continue
        key, f = names[py]
        if key not in enc:
            continue
        ev = enc[key]
        if f.get("wrapper") and isinstance(ev, dict):
            ev = ev.get(E.field_local_name(c, f, "Element"))
        items = E.seq_items(v) if f["card"] == "list" and not f.get("tokens") else None
        typed = f["kind"] in ("Attribute", "Element", "Text") and not f.get("tokens") and f["types"] and all(
            ("p" in t and t["p"] != "str") or ("e" in t and spec["enums"][t["e"]]["base"] != "str") for t in f["types"])
        # objects behind union / compound / base typed fields are decoded through the best-match trial, which
        # needs every key to be known (documented: "doesn't work for documents with unknown properties")
        direct = plain and f["kind"] == "Element" and len(f["types"]) == 1 and "c" in f["types"][0] and not f.get("subs") \
            and not any(o["base"] == f["types"][0]["c"] for o in spec["classes"])
        if items is not None and isinstance(ev, (list, tuple)):
            for k, (iv, ie) in enumerate(zip(items, ev)):
                if isinstance(iv, dict) and isinstance(iv.get("obj"), int):
                    dict_targets(spec, iv, ie, out_keys, out_values, path + (py, k), direct)
                elif typed and not f.get("wrapper") and isinstance(ev, list) and not path:
                    out_values.append((ev, k, path + (py, k)))
        elif isinstance(v, dict) and isinstance(v.get("obj"), int):
            dict_targets(spec, v, ev, out_keys, out_values, path + (py,), direct)
        elif typed and v is not None and not f.get("wrapper") and f["card"] != "list" and not path:
            # nested objects may be decoded through the strict best-match trial (union / base typed fields)
            out_values.append((enc, key, path + (py,)))


def _json(case, col, model):
    spec, fam = case["spec"], case["fam"]
    obj = model.decode(case["inst"])
    fail_props, fail_attrs, fail_conv = case["opts"]
    labels = [f"fam:{fam}", f"opts:{int(fail_props)}{int(fail_attrs)}{int(fail_conv)}", f"route:{case['route']}"]
    enc = DictEncoder(context=XmlContext()).encode(obj)
    enc = json.loads(json.dumps(enc))
    strict = ParserConfig(fail_on_unknown_properties=True, fail_on_unknown_attributes=True, fail_on_converter_warnings=True)
    try:
        with warnings.catch_warnings():
            warnings.simplefilter("error")
            base_obj = DictDecoder(context=XmlContext(), config=strict).decode(copy.deepcopy(enc), model.root)
    except Exception:
        col.case((spec, case["inst"]), False, labels=["baseline-rejected"])
        return []
    original = json.dumps(enc)
    keys, values = [], []
    dict_targets(spec, case["inst"], enc, keys, values)
    sel = case["where"]
    expect_error = expect_warning = False
    expected_obj = base_obj
    if fam == "json-key":
        if not keys:
            col.case((spec, case["inst"], fam), False, labels=labels + ["no-injection-point"])
            return []
        target = keys[sel[0] % len(keys)]
        name = "zzz_unknown"
        target[name] = case["json_value"]
        if sel[1] % 2 and len(target) > 1:      # not always the last key
            items = list(target.items())
            items.insert(sel[2 % len(sel)] % len(items), items.pop())
            target.clear()
            target.update(items)
        expect_error = fail_props
        labels.append("value:" + type(case["json_value"]).__name__)
    else:
        if not values:
            col.case((spec, case["inst"], fam), False, labels=labels + ["no-typed-value"])
            return []
        holder, key, path = values[sel[0] % len(values)]
        holder[key] = GARBAGE
        expect_error = fail_conv
        expect_warning = not fail_conv
        expected_obj = model.decode(set_path(case["inst"], list(path), GARBAGE))
    injected = json.dumps(enc)
    col.case((spec, case["inst"], fam, case["opts"], case["where"], case["route"], injected), True, labels=labels,
             sample={"model": model.src.split("import upper, suffix, cap\n")[-1], "family": fam, "options(props,attrs,conv)": case["opts"],
                     "original": original[:1200], "injected": injected[:1500]})
    with warnings.catch_warnings(record=True) as w:
        warnings.simplefilter("always")
        try:
            if case["route"] == "dict":
                got = ("ok", DictDecoder(context=XmlContext(), config=config(case)).decode(enc, model.root), None)
            else:
                got = ("ok", JsonParser(context=XmlContext(), config=config(case)).from_string(injected, model.root), None)
        except Exception as e:
            got = ("err", e, [])
    if got[0] == "ok":
        got = ("ok", got[1], [x.category for x in w])
    return judge(case, model, got, expect_error, expect_warning, expected_obj, original, injected, fam)


# ---------------------------------------------------------------------------
# a fixed model for two field kinds the ModelSpec generator does not produce: a union of model classes and an `object`
# typed element; every injection x option combination x handler is enumerated


@_dc.dataclass
class UA:
    a: _t.Optional[int] = _dc.field(default=None, metadata={"type": "Element"})
    k: _t.Optional[str] = _dc.field(default=None, metadata={"type": "Attribute"})


@_dc.dataclass
class UB:
    b: _t.Optional[str] = _dc.field(default=None, metadata={"type": "Element"})


@_dc.dataclass
class Host:
    class Meta:
        name = "host"
    u: _t.Optional[_t.Union[UA, UB]] = _dc.field(default=None, metadata={"type": "Element"})
    o: _t.Optional[object] = _dc.field(default=None, metadata={"type": "Element"})
    w: _t.List[object] = _dc.field(default_factory=list, metadata={"type": "Wildcard", "namespace": "##other"})


_NS = 'xmlns:xsi="http://www.w3.org/2001/XMLSchema-instance" xmlns:xs="http://www.w3.org/2001/XMLSchema"'
FIXED_BASE = f'<host {_NS}><u k="1"><a>5</a></u><o xsi:type="xs:int">7</o><x:w xmlns:x="urn:w" xsi:type="xs:int">3</x:w></host>'
FIXED = {   # injection -> (document, which option rejects it, does a tolerant parse warn)
    "unknown-child-in-union-element": (FIXED_BASE.replace("<a>5</a>", "<a>5</a><zzz><q/></zzz>"), 0, False),
    "unknown-attribute-in-union-element": (FIXED_BASE.replace('<u k="1">', '<u k="1" zz="1">'), 1, False),
    "bad-value-in-object-element": (FIXED_BASE.replace(">7</o>", ">abc</o>"), 2, True),
    "bad-value-in-wildcard-child": (FIXED_BASE.replace(">3</x:w>", ">abc</x:w>"), 2, True),
}


def fixed_cases():
    for inj in FIXED:
        for a in (False, True):
            for b in (False, True):
                for c in (False, True):
                    for h in ("lxml", "native"):
                        yield {"fam": "fixed", "inj": inj, "opts": [a, b, c], "handler": h}


def execute_fixed(case, col):
    doc, which, warns = FIXED[case["inj"]]
    col.case(("fixed", case["inj"], case["opts"], case["handler"]), True, labels=["family:fixed-model", f"injection:{case['inj']}", f"handler:{case['handler']}"],
             sample={"injected": doc, "options(props,attrs,conv)": case["opts"], "handler": case["handler"]})

    def parse(text):
        p = XmlParser(context=XmlContext(), handler=c01.HANDLERS[case["handler"]], config=config(case))
        with warnings.catch_warnings(record=True) as w:
            warnings.simplefilter("always")
            try:
                return ("ok", p.from_string(text, Host), [x.category for x in w])
            except Exception as e:
                return ("err", e, [])
    base, got = parse(FIXED_BASE), parse(doc)
    ctx = f"options(props,attrs,conv)={case['opts']} handler={case['handler']}\ninjected: {doc}"
    if base[0] != "ok":
        return [Failure("fixed/base-rejected", f"{base[1]!r}\n{ctx}", case)]
    if case["opts"][which]:
        if got[0] == "ok":
            return [Failure(f"fixed/{case['inj']}/not-rejected", f"parsing succeeded although the option says fail\n{ctx}", case)]
        if not isinstance(got[1], ParserError):
            return [Failure(exc_sig(f"fixed/{case['inj']}/wrong-error", got[1]), f"{type(got[1]).__name__}: {got[1]} instead of ParserError\n{ctx}", case)]
        return []
    if got[0] == "err":
        return [Failure(exc_sig(f"fixed/{case['inj']}/rejected-although-tolerant", got[1]), f"{type(got[1]).__name__}: {got[1]}\n{ctx}", case)]
    if not warns and not deep_eq(got[1], base[1]):
        return [Failure(f"fixed/{case['inj']}/object-changed", f"{first_diff(base[1], got[1])}\n{ctx}", case)]
    if warns and not any(issubclass(c, ConverterWarning) for c in got[2]):
        return [Failure(f"fixed/{case['inj']}/no-warning", f"unconvertible value accepted without a ConverterWarning\n{ctx}", case)]
    if warns and "abc" not in repr(got[1]):
        return [Failure(f"fixed/{case['inj']}/value-not-kept", f"the raw value is not kept: {got[1]!r}\n{ctx}", case)]
    return []


def plan(tier, seed):
    n, nsh = {"quick": (10000, 16), "thorough": (400000, 64)}[tier]
    return [{"n": n // nsh, "seed": seed * 1000 + i} for i in range(nsh)] + [{"fixed": True}]


def run_shard(shard, col):
    if shard.get("fixed"):
        for case in fixed_cases():
            for f in execute_fixed(case, col):
                col.fail(f)
        col.exhaustive.append("fixed model (union of classes, object element, wildcard child): 4 injections x 8 option combinations x 2 handlers")
        return
    hyp_campaign(cases(), execute, shard["n"], shard["seed"], col)


def replay_case(case):
    from vlib.core import Collector
    return list(execute(case, Collector()) or ())
