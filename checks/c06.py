"""C06 - XML Schema date, time, duration and period types are exact (DESIGN §C06)."""
import datetime
import itertools
import operator
from fractions import Fraction

from hypothesis import strategies as st

from vlib import xsdref as X
from vlib.core import Failure, exc_sig, hyp_campaign

ID = "C06"
LEVEL = "exploration"
RULE = ("Bounded-exhaustive tables + Hypothesis search. Exhaustive: every (month, day) in 1..12 x 0..32 for eight year "
        "classes (leap, non-leap, century, 400-year, year 0, negative leap/non-leap, >4 digits) through xs:date, "
        "xs:dateTime and the g* shapes (valid ones must parse to the right fields and re-format; shape-right "
        "impossible dates must be rejected); all 1681 whole-minute offsets -14:00..+14:00 plus Z/none; fractional "
        "seconds of every length 1..9; the hour-24 forms; all 2^6 duration component subsets x sign x decimal seconds; "
        "every impossible time of day (hour 25.., 24:00:00.x, 24:01:00, minute/second 60). Random: by-construction "
        "lexical forms with years up to +-10^12 (parse, format, re-parse), conversions to/from datetime/date/time, and "
        "adversarially close pairs (1 ns apart, straddling month/year ends, same instant in other offsets) whose six "
        "comparison operators must agree with an exact integer-nanosecond timeline. Non-trivial = not an all-default "
        "value; distinct by (sub-check, lexical form / pair).")
ASSUMPTIONS = [
    "reference calendar/timeline: vlib/xsdref.py (proleptic Gregorian, astronomical year numbering as in XSD 1.1; 24:00:00 = next day 00:00:00)",
    "libxml2 is a second opinion on formatted output when year != 0 (XSD 1.0 has no year 0000)",
    "rejection is asserted only for strings of the right shape that denote no calendar date / time of day; out-of-range zone offsets are not asserted",
    "comparisons are checked for pairs where both or neither value has an offset (mixed pairs are indeterminate in XSD); XmlTime pairs avoid hour 24",
    "stdlib conversions are checked for years 1..9999, hour < 24; exact for whole microseconds, within 1 microsecond (and never an exception) for values between two microseconds",
]

from xsdata.exceptions import ConverterError  # noqa: E402
from xsdata.formats.converter import converter  # noqa: E402
from xsdata.models.datatype import XmlDate, XmlDateTime, XmlDuration, XmlPeriod, XmlTime  # noqa: E402

CLS = {"date": XmlDate, "time": XmlTime, "dateTime": XmlDateTime, "duration": XmlDuration, "period": XmlPeriod}


def build(t, s):
    c = CLS[t]
    return c.from_string(s) if t in ("date", "time", "dateTime") else c(s)


def fields_of(t, v):
    if t in ("date", "time", "dateTime"):
        return tuple(v)
    if t == "period":
        return (v.year, v.month, v.day, v.offset)
    sec = v.seconds
    return (v.negative, v.years, v.months, v.days, v.hours, v.minutes, sec)


def fields_match(t, got, exp):
    if t != "duration":
        return got == tuple(exp)
    S = exp[6]
    return got[:6] == tuple(exp[:6]) and ((S is None and got[6] is None) or (S is not None and got[6] == float(S)))


# ---------------------------------------------------------------------------
# sub-check "parse": valid lexical form -> fields; format -> valid + round trip

def check_valid(t, s, exp, case, shape=None):
    """`s` is an XSD-valid form of type t with reference value exp."""
    fails = []
    try:
        v = build(t, s)
    except ValueError as e:
        return [Failure(f"parse-rejected/{t}", f"valid xs:{shape or t} form {s!r} rejected: {e}", case)]
    except Exception as e:
        return [Failure(exc_sig(f"parse-crash/{t}", e), f"{s!r}: {type(e).__name__}: {e}", case)]
    got = fields_of(t, v)
    if not fields_match(t, got, exp):
        return [Failure(f"parse-value/{t}", f"xs:{shape or t} form {s!r} -> {got!r}, XSD assigns {tuple(exp)!r}", case)]
    # format
    out = str(v)
    if t == "period":
        sh, r = X.recognise_period(out)
    else:
        r = X.recognise(t, out, collapse_ws=False)
    if r is X.INVALID or not fields_match(t, fields_of(t, build(t, out)) if t == "duration" else tuple(r), exp):
        fails.append(Failure(f"format-invalid/{t}", f"{s!r} parsed to {v!r} formats as {out!r}, not a valid form of the same value", case))
        return fails
    year = exp[0] if t in ("date", "dateTime", "period") else 1
    if year != 0 and t != "period" and not X.libxml_valid(t, out):
        fails.append(Failure(f"format-libxml/{t}", f"{out!r} rejected by libxml2 as xs:{t}", case))
    if t == "period" and year != 0 and not X.libxml_valid(sh, out):
        fails.append(Failure("format-libxml/period", f"{out!r} rejected by libxml2 as xs:{sh}", case))
    try:
        back = build(t, out)
    except Exception as e:
        fails.append(Failure(f"format-reparse/{t}", f"str({v!r}) = {out!r} does not parse back: {e}", case))
        return fails
    if fields_of(t, back) != got or (t in ("period",) and not (back == v)):
        fails.append(Failure(f"format-roundtrip/{t}", f"{v!r} -> {out!r} -> {back!r}", case))
    # through the converter as well
    try:
        cv = converter.deserialize(s, [CLS[t]])
        if fields_of(t, cv) != got:
            fails.append(Failure(f"converter-differs/{t}", f"converter gives {cv!r} for {s!r}, constructor {v!r}", case))
    except Exception as e:
        fails.append(Failure(f"converter-rejected/{t}", f"converter rejects valid {s!r}: {e!r}", case))
    return fails


def check_invalid(t, s, why, case):
    """`s` has the right shape but denotes no real date / time of day: must be rejected."""
    fails = []
    try:
        v = build(t, s)
        fails.append(Failure(f"accepts-impossible/{t}/{why}", f"{s!r} ({why}) accepted as {v!r}", case))
    except ValueError:
        pass
    except Exception as e:
        fails.append(Failure(exc_sig(f"reject-crash/{t}", e), f"{s!r}: {type(e).__name__}: {e}", case))
    try:
        v = converter.deserialize(s, [CLS[t]])
        fails.append(Failure(f"converter-accepts-impossible/{t}/{why}", f"converter: {s!r} ({why}) accepted as {v!r}", case))
    except ConverterError:
        pass
    except Exception as e:
        fails.append(Failure(exc_sig(f"converter-reject-crash/{t}", e), f"{s!r}: {type(e).__name__}: {e}", case))
    return fails


def run_case(case, col):
    k = case["k"]
    if k == "valid":
        exp = case["exp"]
        if case["t"] == "duration" and exp[6] is not None:
            exp = list(exp[:6]) + [Fraction(*exp[6])]
        default = case["s"].strip(X.WS) in ("0001-01-01", "00:00:00", "0001-01-01T00:00:00", "P0Y", "PT0S")
        col.case(("valid", case["t"], case["s"]), not default, labels=[f"valid:{case.get('shape') or case['t']}"],
                 sample={"check": "parse+format", "type": case.get("shape") or case["t"], "lexical": case["s"], "fields": case["exp"]})
        return check_valid(case["t"], case["s"], exp, case, case.get("shape"))
    if k == "invalid":
        col.case(("invalid", case["t"], case["s"]), True, labels=[f"invalid:{case['t']}:{case['why']}"],
                 sample={"check": "rejection", "type": case["t"], "lexical": case["s"], "why": case["why"]})
        return check_invalid(case["t"], case["s"], case["why"], case)
    if k == "cmp":
        return run_cmp(case, col)
    if k == "std":
        return run_std(case, col)
    raise KeyError(k)


def valid_case(t, s, exp, shape=None):
    if t == "duration":
        S = exp[6]
        exp = list(exp[:6]) + [None if S is None else [S.numerator, S.denominator]]
    c = {"k": "valid", "t": t, "s": s, "exp": list(exp)}
    if shape:
        c["shape"] = shape
    return c


# ---------------------------------------------------------------------------
# exhaustive tables

YEAR_CLASSES = [2024, 2023, 1900, 2000, 0, -4, -1, 12000]


def ylex(y):
    return ("-" if y < 0 else "") + "%04d" % abs(y)


def table_calendar():
    """every (month, day) in 0..13 x 0..32 for each year class, through date / dateTime / gMonthDay / gYearMonth."""
    for y in YEAR_CLASSES:
        for m in range(0, 14):
            for d in range(0, 33):
                ok = 1 <= m <= 12 and 1 <= d <= X.days_in_month(y, m)
                why = "month" if not 1 <= m <= 12 else "day"
                s = "%s-%02d-%02d" % (ylex(y), m, d)
                if ok:
                    yield valid_case("date", s, (y, m, d, None))
                    yield valid_case("dateTime", s + "T12:30:00Z", (y, m, d, 12, 30, 0, 0, 0))
                else:
                    yield {"k": "invalid", "t": "date", "s": s, "why": why}
                    yield {"k": "invalid", "t": "dateTime", "s": s + "T12:30:00", "why": why}
    for m in range(0, 14):
        s = "2001-%02d" % m
        if 1 <= m <= 12:
            yield valid_case("period", s, (2001, m, None, None), "gYearMonth")
            yield valid_case("period", "--%02d" % m, (None, m, None, None), "gMonth")
        else:
            yield {"k": "invalid", "t": "period", "s": s, "why": "month"}
            yield {"k": "invalid", "t": "period", "s": "--%02d" % m, "why": "month"}
        for d in range(0, 33):
            s = "--%02d-%02d" % (m, d)
            if 1 <= m <= 12 and 1 <= d <= X.days_in_month(None, m):
                yield valid_case("period", s, (None, m, d, None), "gMonthDay")
            else:
                yield {"k": "invalid", "t": "period", "s": s, "why": "month" if not 1 <= m <= 12 else "day"}
    for d in range(0, 33):
        s = "---%02d" % d
        if 1 <= d <= 31:
            yield valid_case("period", s, (None, None, d, None), "gDay")
        else:
            yield {"k": "invalid", "t": "period", "s": s, "why": "day"}


def off_lex(off):
    if off is None:
        return ""
    if off == 0:
        return "Z"
    a = abs(off)
    return "%s%02d:%02d" % ("-" if off < 0 else "+", a // 60, a % 60)


def table_offsets():
    for off in [None] + list(range(-840, 841)):
        o = off_lex(off)
        yield valid_case("date", "2001-10-26" + o, (2001, 10, 26, off))
        yield valid_case("time", "21:32:52" + o, (21, 32, 52, 0, off))
        yield valid_case("dateTime", "2001-10-26T21:32:52.5" + o, (2001, 10, 26, 21, 32, 52, 500000000, off))
        if off is None or off % 15 == 0:
            for shape, s, v in (("gYear", "2001", (2001, None, None)), ("gYear", "-0044", (-44, None, None)),
                                ("gYear", "12001", (12001, None, None)),
                                ("gYearMonth", "2001-10", (2001, 10, None)), ("gYearMonth", "-0044-03", (-44, 3, None)),
                                ("gMonth", "--10", (None, 10, None)), ("gMonthDay", "--10-26", (None, 10, 26)),
                                ("gDay", "---26", (None, None, 26))):
                yield valid_case("period", s + o, v + (off,), shape)
    for alt in ("+00:00", "-00:00"):
        yield valid_case("time", "21:32:52" + alt, (21, 32, 52, 0, 0))
        yield valid_case("date", "2001-10-26" + alt, (2001, 10, 26, 0))


def table_times():
    # fractional seconds of every length, with leading/trailing zeros and nines
    for n in range(1, 10):
        for digs in {"1" * n, "0" * (n - 1) + "1", "9" * n, "1" + "0" * (n - 1), "0" * n, "5".rjust(n, "0")[:n]}:
            ns = int(digs.ljust(9, "0"))
            yield valid_case("time", "12:00:00." + digs, (12, 0, 0, ns, None))
            yield valid_case("dateTime", "1999-12-31T23:59:59." + digs + "Z", (1999, 12, 31, 23, 59, 59, ns, 0))
    for frac in ("", ".0", ".00", ".000000000"):
        yield valid_case("time", "24:00:00" + frac, (24, 0, 0, 0, None))
        yield valid_case("dateTime", "2000-02-29T24:00:00" + frac + "+01:00", (2000, 2, 29, 24, 0, 0, 0, 60))
    for h, mi, s in itertools.product(range(0, 27), (0, 1, 59, 60, 61), (0, 1, 59, 60, 61)):
        lex = "%02d:%02d:%02d" % (h, mi, s)
        ok = (h <= 23 and mi <= 59 and s <= 59) or (h, mi, s) == (24, 0, 0)
        why = "hour" if h > 24 or (h == 24 and (mi, s) != (0, 0)) else ("minute" if mi > 59 else "second")
        if ok:
            yield valid_case("time", lex, (h, mi, s, 0, None))
            yield valid_case("dateTime", "2001-01-01T" + lex, (2001, 1, 1, h, mi, s, 0, None))
        else:
            yield {"k": "invalid", "t": "time", "s": lex, "why": why}
            yield {"k": "invalid", "t": "dateTime", "s": "2001-01-01T" + lex, "why": why}
    for frac in (".000000001", ".1", ".000001"):
        yield {"k": "invalid", "t": "time", "s": "24:00:00" + frac, "why": "past-24"}
        yield {"k": "invalid", "t": "dateTime", "s": "2001-01-01T24:00:00" + frac, "why": "past-24"}


def table_durations():
    comps = [("Y", 3), ("M", 14), ("D", 400), ("H", 25), ("M", 61), ("S", None)]
    for mask in range(1, 64):
        for neg in (False, True):
            for sec in ("7", "0.5", "12.345678901", "0"):
                if not mask & 32 and sec != "7":
                    continue
                vals = [None] * 6
                lex = ("-" if neg else "") + "P"
                for i, (c, n) in enumerate(comps[:3]):
                    if mask & (1 << i):
                        vals[i] = n
                        lex += f"{n}{c}"
                if mask & 0b111000:
                    lex += "T"
                for i, (c, n) in enumerate(comps[3:5], start=3):
                    if mask & (1 << i):
                        vals[i] = n
                        lex += f"{n}{c}"
                if mask & 32:
                    vals[5] = Fraction(sec)
                    lex += sec + "S"
                yield valid_case("duration", lex, (neg,) + tuple(vals))


TABLES = {"calendar": table_calendar, "offsets": table_offsets, "times": table_times, "durations": table_durations}

# ---------------------------------------------------------------------------
# random: by-construction lexical forms


@st.composite
def case_random_valid(draw):
    t = draw(st.sampled_from(["date", "time", "dateTime", "duration", "period"]))
    if t == "period":
        lex, val, shape = draw(X.lex_period())
    else:
        lex, val = draw({"date": X.lex_date(), "time": X.lex_time(), "dateTime": X.lex_datetime(), "duration": X.lex_duration()}[t])
        shape = None
    lex = draw(X.ws) + lex + draw(X.ws)
    return valid_case(t, lex, val, shape)


# ---------------------------------------------------------------------------
# timeline comparisons

OPS = {"==": operator.eq, "!=": operator.ne, "<": operator.lt, "<=": operator.le, ">": operator.gt, ">=": operator.ge}
DELTAS = [0, 1, -1, 999, 1000, 10**6, 10**9, -10**9, 60 * 10**9, 3600 * 10**9, 86400 * 10**9, -86400 * 10**9,
          86400 * 10**9 - 1, 30 * 86400 * 10**9, 31 * 86400 * 10**9, 365 * 86400 * 10**9, 43200 * 10**9, -43200 * 10**9 - 1]


@st.composite
def case_cmp(draw):
    if draw(st.booleans()):
        _, a = draw(X.lex_datetime())
        a = list(a)
        if draw(st.booleans()):     # pull towards month / year ends
            a[1], a[2] = draw(st.sampled_from([(1, 31), (2, 28), (12, 31), (3, 1), (1, 1), (4, 30)]))
            a[3:6] = draw(st.sampled_from([(23, 59, 59), (0, 0, 0), (12, 0, 0), (10, 29, 3)]))
        a[0] = draw(st.one_of(st.integers(-3000, 3000), st.just(a[0])))
        has_off = a[7] is not None
        delta = draw(st.one_of(st.sampled_from(DELTAS), st.integers(-10**18, 10**18)))
        off_b = draw(st.one_of(st.sampled_from([0, 60, -300, 840, -840]), st.integers(-840, 840))) if has_off else None
        if has_off and draw(st.booleans()):
            off_b = a[7]
        b = X.datetime_from_timeline(X.timeline_ns(tuple(a)) + delta, off_b)
        return {"k": "cmp", "t": "dateTime", "a": a, "b": list(b)}
    _, a = draw(X.lex_time().filter(lambda p: p[1][0] != 24))
    a = list(a)
    has_off = a[4] is not None
    delta = draw(st.sampled_from([0, 1, -1, 999, 1000, 10**6, 10**9, -10**9, 60 * 10**9]))
    off_b = (a[4] if draw(st.booleans()) else draw(st.integers(-840, 840))) if has_off else None
    # time values live on an unwrapped line (XSD 1.1 timeOnTimeline with a fixed reference date): keep b inside one day
    local = X.time_ns(tuple(a)) + delta + (off_b or 0) * 60 * 10**9
    if not 0 <= local < 86400 * 10**9:
        local = X.time_ns(tuple(a)) + (a[4] or 0) * 60 * 10**9
        off_b = a[4]
    secs, ns = divmod(local, 10**9)
    b = [secs // 3600, secs % 3600 // 60, secs % 60, ns, off_b]
    return {"k": "cmp", "t": "time", "a": a, "b": b}


def run_cmp(case, col):
    t = case["t"]
    C = CLS[t]
    a, b = C(*case["a"]), C(*case["b"])
    ra, rb = (X.timeline_ns(tuple(case["a"])), X.timeline_ns(tuple(case["b"]))) if t == "dateTime" else \
        (X.time_ns(tuple(case["a"])), X.time_ns(tuple(case["b"])))
    d = abs(ra - rb)
    col.case(("cmp", t, case["a"], case["b"]), True,
             labels=[f"cmp:{t}", "cmp:equal-instant" if d == 0 else ("cmp:within-1us" if d < 1000 else ("cmp:within-1day" if d <= 86400 * 10**9 else "cmp:far")),
                     "cmp:month-differs" if t == "dateTime" and case["a"][1] != case["b"][1] else "cmp:same-month"],
             sample={"check": "timeline", "a": str(a), "b": str(b), "reference_delta_ns": rb - ra})
    for name, op in OPS.items():
        want = op(ra, rb)
        try:
            got = op(a, b)
        except Exception as e:
            return [Failure(exc_sig(f"cmp-crash/{t}", e), f"{a!r} {name} {b!r} raised {e!r}", case)]
        if got is not want:
            kind = "sub-microsecond" if d < 1000 else ("calendar" if t == "dateTime" and (case["a"][1] != case["b"][1] or case["a"][0] != case["b"][0]) else "other")
            return [Failure(f"cmp-timeline/{t}/{kind}", f"({a}) {name} ({b}) is {got}, timeline says {want} (b - a = {rb - ra} ns)", case)]
    return []


# ---------------------------------------------------------------------------
# standard-library conversions


@st.composite
def case_std(draw):
    t = draw(st.sampled_from(["dateTime", "date", "time"]))
    y, m, d = draw(st.integers(1, 9999)), draw(st.integers(1, 12)), 0
    d = draw(st.integers(1, X.days_in_month(y, m)))
    h, mi, s = draw(st.integers(0, 23)), draw(st.integers(0, 59)), draw(st.integers(0, 59))
    us = draw(st.sampled_from([0, 0, 1, 999999, 500000, 123456]))
    # values between two microseconds: the standard library cannot hold them, the conversion must still succeed and
    # stay within one microsecond of the instant (also right below the next whole second)
    sub = draw(st.sampled_from([0, 0, 0, 1, 499, 500, 501, 999])) if t != "date" else 0
    off = draw(X.offsets)
    return {"k": "std", "t": t, "v": [y, m, d, h, mi, s, us * 1000 + sub, off]}


def _tz(off):
    return None if off is None else datetime.timezone(datetime.timedelta(minutes=off))


def run_std(case, col):
    t = case["t"]
    y, m, d, h, mi, s, ns, off = case["v"]
    col.case(("std", t, case["v"]), True, labels=[f"std:{t}", "std:sub-microsecond" if ns % 1000 else "std:whole-microsecond", "std:negative-offset" if (off or 0) < 0 else "std:offset>=0",
                                                   "std:offset-not-whole-hour" if off and off % 60 else "std:whole-hour"],
             sample={"check": "stdlib", "type": t, "fields": case["v"]})
    fails = []
    try:
        if t == "dateTime":
            x = XmlDateTime(y, m, d, h, mi, s, ns, off)
            want = datetime.datetime(y, m, d, h, mi, s, ns // 1000, tzinfo=_tz(off))
            got = x.to_datetime()
            if ns % 1000:
                whole = datetime.datetime(y, m, d, h, mi, s)
                err = (got.replace(tzinfo=None) - whole) // datetime.timedelta(microseconds=1) * 1000 - ns
                if abs(err) >= 1000 or got.utcoffset() != want.utcoffset():
                    fails.append(Failure("std/to_datetime-submicro", f"{x!r}.to_datetime() = {got!r} is {err} ns away from the instant", case))
            elif got != want or got.utcoffset() != want.utcoffset() or got.replace(tzinfo=None) != want.replace(tzinfo=None):
                fails.append(Failure("std/to_datetime", f"{x!r}.to_datetime() = {got!r}, expected {want!r}", case))
            back = XmlDateTime.from_datetime(want)
            if ns % 1000 == 0 and tuple(back) != tuple(x):
                fails.append(Failure("std/from_datetime", f"XmlDateTime.from_datetime({want!r}) = {back!r}, expected {x!r}", case))
        elif t == "date":
            x = XmlDate(y, m, d, off)
            if x.to_date() != datetime.date(y, m, d):
                fails.append(Failure("std/to_date", f"{x!r}.to_date() = {x.to_date()!r}", case))
            want = datetime.datetime(y, m, d, tzinfo=_tz(off))
            got = x.to_datetime()
            if got != want or got.utcoffset() != want.utcoffset() or got.replace(tzinfo=None) != want.replace(tzinfo=None):
                fails.append(Failure("std/date.to_datetime", f"{x!r}.to_datetime() = {got!r}, expected {want!r}", case))
            if tuple(XmlDate.from_date(datetime.date(y, m, d))) != (y, m, d, None):
                fails.append(Failure("std/from_date", f"from_date({y}-{m}-{d})", case))
            if tuple(XmlDate.from_datetime(want)) != (y, m, d, off):
                fails.append(Failure("std/date.from_datetime", f"XmlDate.from_datetime({want!r}) = {XmlDate.from_datetime(want)!r}", case))
        else:
            x = XmlTime(h, mi, s, ns, off)
            want = datetime.time(h, mi, s, ns // 1000, tzinfo=_tz(off))
            got = x.to_time()
            if ns % 1000:
                day = datetime.datetime(2000, 1, 1)
                err = (datetime.datetime.combine(day, got.replace(tzinfo=None)) - day.replace(hour=h, minute=mi, second=s)) \
                    // datetime.timedelta(microseconds=1) * 1000 - ns
                if abs(err) >= 1000 or got.utcoffset() != want.utcoffset():
                    fails.append(Failure("std/to_time-submicro", f"{x!r}.to_time() = {got!r} is {err} ns away from the time of day", case))
            elif got.replace(tzinfo=None) != want.replace(tzinfo=None) or got.utcoffset() != want.utcoffset():
                fails.append(Failure("std/to_time", f"{x!r}.to_time() = {got!r}, expected {want!r}", case))
            back = XmlTime.from_time(want)
            if ns % 1000 == 0 and tuple(back) != tuple(x):
                fails.append(Failure("std/from_time", f"XmlTime.from_time({want!r}) = {back!r}, expected {x!r}", case))
    except Exception as e:
        fails.append(Failure(exc_sig(f"std-crash/{t}", e), f"{case['v']}: {type(e).__name__}: {e}", case))
    return fails


# ---------------------------------------------------------------------------

STRATS = {"random_valid": case_random_valid, "cmp": case_cmp, "std": case_std}


def plan(tier, seed):
    shards = [{"table": n} for n in TABLES]
    per = {"quick": {"random_valid": 12000, "cmp": 12000, "std": 6000},
           "thorough": {"random_valid": 1500000, "cmp": 1500000, "std": 300000}}[tier]
    nsh = {"quick": 4, "thorough": 16}[tier]
    for fam, n in per.items():
        for i in range(nsh):
            shards.append({"fam": fam, "n": n // nsh, "seed": seed * 1000 + i})
    return shards


def run_shard(shard, col):
    if "table" in shard:
        for c in TABLES[shard["table"]]():
            for f in run_case(c, col):
                col.fail(f)
        col.exhaustive.append("table:" + shard["table"])
        return
    hyp_campaign(STRATS[shard["fam"]](), run_case, shard["n"], shard["seed"], col)


def replay_case(case):
    from vlib.core import Collector
    return list(run_case(case, Collector()) or ())
