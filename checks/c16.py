"""C16 - generated classes are faithful to the DTD they came from (DESIGN §C16)."""
import warnings

from hypothesis import strategies as st
from lxml import etree

from vlib import codegen as G
from vlib import dtds as D
from vlib import infoset as I
from vlib.core import Collector, Failure, exc_sig, hyp_campaign

ID = "C16"
LEVEL = "exploration"
RULE = ("Hypothesis draws a DtdSpec (2-9 element declarations: EMPTY, ANY, #PCDATA, mixed, nested sequences and choices with ?, *, + on "
        "elements and groups; attribute lists with CDATA, ID, IDREF(S), NMTOKEN(S), enumerations and #REQUIRED / #IMPLIED / #FIXED / "
        "default values; an xmlns or xmlns:prefix declaration on the root), 1-3 documents valid by construction and a generator "
        "configuration. libxml2 must accept the DTD and validate the documents (else generator reject). Oracles: generation succeeds "
        "and imports; each document parses into the generated root class with every fail_on_* option on and warnings as errors; the "
        "infoset of serialize(parse(doc)), read without the DTD, equals that of doc read by libxml2 with the DTD's attribute defaults "
        "and fixed values applied (unordered where the DTD lets groups repeat, ordered and DTD-valid where repetition is confined to single elements and, "
        "with compound fields, choices of single elements). Non-trivial = the DTD uses >= 4 feature families and a document has >= 4 "
        "elements; distinct by fingerprint of (spec, documents, options).")
ASSUMPTIONS = [
    "code generation runs through stand-ins for click/jinja2/toposort and without ruff (DESIGN §1.1)",
    "libxml2 decides DTD well-formedness and validity and supplies the default-augmented infoset",
]

from xsdata.formats.dataclass.context import XmlContext  # noqa: E402
from xsdata.formats.dataclass.parsers import XmlParser  # noqa: E402
from xsdata.formats.dataclass.parsers.config import ParserConfig  # noqa: E402
from xsdata.formats.dataclass.serializers import XmlSerializer  # noqa: E402
from xsdata.formats.dataclass.serializers.config import SerializerConfig  # noqa: E402

# xmlns declarations stay off: the root class is generated without its namespace and rejects every valid document (recorded finding)
OPTS = D.Opts(namespaces=False, nested_sequence_occurs=True)


@st.composite
def cases(draw):
    spec = draw(D.dtd_specs(OPTS))
    docs = [etree.tostring(D.InstanceGen(draw, spec).document(), encoding="unicode") for _ in range(draw(st.integers(1, 3)))]
    opts = {"structure_style": draw(st.sampled_from(["filenames", "clusters", "single-package"])), "compound_fields.enabled": draw(st.booleans()),
            "unnest_classes": draw(st.booleans()), "format.frozen": draw(st.booleans()), "format.slots": draw(st.booleans())}
    if D.sequence_inside_choice(spec):
        # with compound fields the members of a sequence alternative share one single-valued field and all but one are dropped
        # (recorded finding compound-field-choice-with-sequence-alternative)
        opts["compound_fields.enabled"] = False
    return {"spec": spec, "docs": docs, "options": opts}


def execute(case, col):
    spec, opts = case["spec"], case["options"]
    dtd = D.render_dtd(spec)
    try:
        val = D.validator(dtd)
    except Exception:
        col.reject()
        return []
    roots = []
    for d in case["docs"]:
        r = etree.fromstring(d.encode())
        if not val.validate(r):
            col.reject()
            return []
        roots.append(r)
    feats = D.features(spec)
    compound = opts["compound_fields.enabled"]
    ordered = D.order_preserving(spec, compound)
    col.case((spec, case["docs"], sorted(opts.items())), len(feats) >= 4 and max(sum(1 for _ in r.iter()) for r in roots) >= 4,
             labels=[f"feature:{f}" for f in sorted(feats)] + ["order-preserving-fragment" if ordered else "regrouping-allowed", "compound" if compound else "no-compound"],
             sample={"dtd": dtd[:2500], "documents": [d[:1200] for d in case["docs"]], "options": opts})
    tail = f"\noptions: {opts}\ndtd:\n{dtd}"
    rootname = D.qname(spec, spec["root"])
    with G.Workspace() as ws:
        try:
            pkg = ws.generate({"schema.dtd": dtd}, opts, package=ws.unique_package("c16") + ".gen")
            ws.import_all(pkg)
            ctx = XmlContext()
            rootcls = None
            for cls in ws.classes(pkg):
                if "." in cls.__qualname__:
                    continue
                meta = ctx.build(cls)
                if meta.qname == roots[0].tag:
                    rootcls = cls
        except Exception as e:
            return [Failure(exc_sig("generate-or-import", e), f"{type(e).__name__}: {e}{tail}", case)]
        if rootcls is None:
            return [Failure("no-root-class", f"no generated class is bound to {roots[0].tag}{tail}", case)]
        for d in case["docs"]:
            try:
                with warnings.catch_warnings():
                    warnings.simplefilter("error")
                    obj = XmlParser(context=ctx, config=ParserConfig(fail_on_unknown_properties=True, fail_on_unknown_attributes=True,
                                                                      fail_on_converter_warnings=True)).from_string(d, rootcls)
            except Exception as e:
                return [Failure(exc_sig("valid-document-rejected", e), f"{type(e).__name__}: {e}\ndocument: {d}{tail}", case)]
            try:
                # DTD validity is prefix-literal: the prefixes the DTD declares are handed to the serializer as the user's prefix map
                ns_map = {p: u for e in spec["elements"].values() if e.get("nsdecls") for p, u in e["nsdecls"]["decls"]}
                if spec["ns"]:
                    ns_map[None if spec["ns"]["kind"] == "default" else spec["ns"]["prefix"]] = spec["ns"]["uri"]
                out = XmlSerializer(context=ctx, config=SerializerConfig(xml_declaration=False)).render(obj, ns_map=ns_map or None)
                a = I.canon(D.with_defaults(dtd, rootname, d), unordered=not ordered)
                b = I.canon(I.parse_strict(out.encode()), unordered=not ordered)       # the output itself carries the defaults
            except Exception as e:
                return [Failure(exc_sig("serialize-raise", e), f"{type(e).__name__}: {e}\ndocument: {d}{tail}", case)]
            if a != b:
                return [Failure("content-differs" if ordered is False or I.canon(D.with_defaults(dtd, rootname, d), unordered=True) !=
                                I.canon(I.parse_strict(out.encode()), unordered=True) else "order-differs",
                                f"{I.diff(a, b)}\ninput:  {d}\noutput: {out}{tail}", case)]
            # (DTD validity is literal about where xmlns:p attributes sit; with prefixed attributes only the infoset is compared)
            if ordered and "attr-namespaces" not in feats and not val.validate(etree.fromstring(out.encode())):
                return [Failure("output-not-dtd-valid", f"{val.error_log.last_error}\ninput:  {d}\noutput: {out}{tail}", case)]
    return []


def plan(tier, seed):
    n, nsh = {"quick": (2400, 16), "thorough": (60000, 64)}[tier]
    return [{"n": n // nsh, "seed": seed * 1000 + i} for i in range(nsh)]


def run_shard(shard, col):
    hyp_campaign(cases(), execute, shard["n"], shard["seed"], col, shrink_budget_s=40, max_shrinks=4)


def replay_case(case):
    return list(execute(case, Collector()) or ())
