"""C02 - generated classes are faithful to the XML Schema they came from (DESIGN §C02)."""
import warnings

from hypothesis import strategies as st
from lxml import etree

from vlib import codegen as G
from vlib import infoset as I
from vlib import multixsd as M
from vlib import schemas as S
from vlib.core import Collector, Failure, exc_sig, hyp_campaign

ID = "C02"
LEVEL = "exploration"
RULE = ("Two families. (multi-schema) 2-5 schemas importing each other, type names recurring across namespaces and global elements "
        "named like types, 1-2 valid Basket documents; generation under two configurations must succeed (or be declined as a circular "
        "import by a non-cluster style), both must parse the documents strictly and reproduce their canonical infoset, schema-valid. "
        "(single schema) Hypothesis draws a SchemaSpec (target namespace, element/attribute form defaults and per-declaration forms, named and "
        "anonymous complex types, sequence/choice/all particles with occurrence ranges and nesting, simple types by "
        "restriction/list/union/enumeration, attributes with use/default/fixed, xs:any / xs:anyAttribute, extension with "
        "xsi:type substitution, abstract bases, nillable, mixed, simple content, recursion), 1-3 instance documents valid by "
        "construction and a generator configuration. The schema must compile and the documents validate under libxml2 (else "
        "generator reject). Oracles: (1) generation succeeds and the package imports; (2) each document parses into the "
        "generated root class with all fail_on_* options on and warnings as errors; (3) the typed, default-augmented, unordered "
        "infoset of serialize(parse(doc)) equals that of doc; (4) where the schema is in the order-preserving fragment the "
        "ordered infosets agree and libxml2 validates the output; (5) a second configuration differing only in output-only "
        "options (structure style, unnest, frozen, slots, docstring style, relative imports, generic collections, line "
        "length) accepts the same documents and yields outputs with identical infosets. Non-trivial = the schema uses >= 3 "
        "feature families and the document has >= 5 element nodes; distinct by fingerprint of (spec, documents, config).")
ASSUMPTIONS = [
    "code generation runs through stand-ins for click/jinja2/toposort and without ruff (DESIGN §1.1); the stand-ins reproduce the "
    "28 committed fixture files AST-for-AST (self-test at setup and at the start of this check)",
    "libxml2 (XSD 1.0) decides schema/instance validity; the SchemaSpec stays inside XSD 1.0",
    "typed comparison uses vlib/xsdref.py value semantics per declared simple type (vlib/schemas.walk)",
]

from xsdata.formats.dataclass.context import XmlContext  # noqa: E402
from xsdata.formats.dataclass.parsers import XmlParser  # noqa: E402
from xsdata.formats.dataclass.parsers.config import ParserConfig  # noqa: E402
from xsdata.formats.dataclass.serializers import XmlSerializer  # noqa: E402
from xsdata.formats.dataclass.serializers.config import SerializerConfig  # noqa: E402

# mixed content is outside the generated domain: four unrelated defects were found in it on the unchanged tree (known_findings.json:
# mixed-*) and every longer campaign ended in one of them
OPTS = S.Opts(components=True, mixed=False)
STYLES = ["filenames", "namespaces", "clusters", "single-package", "namespace-clusters"]
DOCSTYLES = ["reStructuredText", "NumPy", "Google", "Accessible", "Blank"]


@st.composite
def output_only(draw):
    return {"structure_style": draw(st.sampled_from(STYLES)), "unnest_classes": draw(st.booleans()),
            "format.frozen": draw(st.booleans()), "format.slots": draw(st.booleans()),
            "docstring_style": draw(st.sampled_from(DOCSTYLES)), "relative_imports": draw(st.booleans()),
            "generic_collections": draw(st.booleans()), "max_line_length": draw(st.sampled_from([60, 79, 120, 200]))}


@st.composite
def cases(draw):
    spec = draw(S.schema_specs(OPTS))
    docs = []
    for _ in range(draw(st.integers(1, 3))):
        root = S.InstanceGen(draw, spec).document()
        docs.append(etree.tostring(root, encoding="unicode"))
    shape = {"compound_fields.enabled": draw(st.integers(0, 3)) != 0, "wrapper_fields": False}
    cfg_a, cfg_b = draw(output_only()), draw(output_only())
    # wrapper_fields stays off: three unrelated defects on the unchanged tree (known_findings.json: wrapper-*)
    if spec.get("flags", {}).get("nillables-in-one-choice"):
        # None in a compound field names no element: with two nillable alternatives the first one is written (recorded finding)
        shape["compound_fields.enabled"] = False
    if spec.get("flags", {}).get("default-in-group"):
        # an empty element with a default / fixed value that lands in a compound field is bound as '' (recorded findings)
        shape["compound_fields.enabled"] = False
    if shape["compound_fields.enabled"]:
        names = [e["name"] for t in S.all_types(spec) if t["k"] == "complex" for e in S.local_elements(t)] + \
                [e["name"] for g in spec.get("groups", {}).values() for e in g["items"]]
        if len(set(names)) != len(names):
            # the helper classes that disambiguate same-typed choices are named after the element; unnested, two of them from
            # different types share one name (recorded finding unnest-disambiguation-classes-share-a-name)
            cfg_a["unnest_classes"] = cfg_b["unnest_classes"] = False
    if "mixed" in S.features(spec):
        shape["compound_fields.enabled"] = False     # mixed content next to compound fields: recorded finding (known_findings.json)
    return {"spec": spec, "docs": docs, "shape": shape, "cfg_a": cfg_a, "cfg_b": cfg_b}


@st.composite
def multi_cases(draw):
    """A set of schemas importing each other (type names recurring across namespaces, global elements named like types)."""
    spec = draw(M.multi_specs())
    docs = [M.instance(draw, spec) for _ in range(draw(st.integers(1, 2)))]
    shape = {"compound_fields.enabled": draw(st.booleans()), "wrapper_fields": False}
    return {"family": "multi", "spec": spec, "docs": docs, "shape": shape, "cfg_a": draw(output_only()), "cfg_b": draw(output_only())}


def execute_multi(case, col):
    import os
    import tempfile
    spec = case["spec"]
    files = M.render(spec)
    with tempfile.TemporaryDirectory() as d:
        for n, t in files.items():
            with open(os.path.join(d, n), "w", encoding="utf-8") as fh:
                fh.write(t)
        try:
            schema = etree.XMLSchema(etree.parse(os.path.join(d, "main.xsd")))
        except Exception:
            col.reject()
            return []
    roots = [etree.fromstring(x.encode()) for x in case["docs"]]
    if not all(schema.validate(r) for r in roots):
        col.reject()
        return []
    names = [t for leaf in spec["leaves"] for t in leaf["types"]]
    col.case((spec, case["docs"], case["shape"], case["cfg_a"], case["cfg_b"]), len(set(names)) < len(names) or any(leaf["elements"] for leaf in spec["leaves"]),
             labels=["family:multi-schema", f"schemas:{len(files)}", f"style:{case['cfg_a']['structure_style']}"] +
                    (["type-name-in-several-namespaces"] if len(set(names)) < len(names) else []),
             sample={"files": {n: t[:1200] for n, t in files.items()}, "documents": [x[:1000] for x in case["docs"]], "config": {**case["shape"], **case["cfg_a"]}})
    shown = "\n".join(f"--- {n}\n{t}" for n, t in files.items())
    qname = S.qn(spec["main_ns"], "Basket")
    outs = {}
    for which in ("cfg_a", "cfg_b"):
        opts = {**case["shape"], **case[which]}
        with G.Workspace() as ws:
            try:
                pkg = ws.generate(files, opts, package=ws.unique_package("c02m") + ".gen")
                ctx = XmlContext()
                rootcls = None
                for cls in ws.classes(pkg):
                    if "." not in cls.__qualname__ and ctx.build(cls).qname == qname:
                        rootcls = cls
            except Exception as e:
                if type(e).__name__ == "CodegenError" and ("Circular Dependencies" in str(e) or "strongly connected" in str(e)) and opts["structure_style"] != "clusters":
                    col.label("generator-declined:circular-imports")
                    continue
                return [Failure(exc_sig(f"multi/generate-or-import/{which}", e), f"{type(e).__name__}: {e}\noptions: {opts}\n{shown}", case)]
            if rootcls is None:
                return [Failure("multi/no-root-class", f"no generated class is bound to {qname}\noptions: {opts}\n{shown}", case)]
            outs[which] = []
            for text in case["docs"]:
                try:
                    with warnings.catch_warnings():
                        warnings.simplefilter("error")
                        obj = XmlParser(context=ctx, config=ParserConfig(fail_on_unknown_properties=True, fail_on_unknown_attributes=True,
                                                                          fail_on_converter_warnings=True)).from_string(text, rootcls)
                    out = XmlSerializer(context=ctx, config=SerializerConfig(xml_declaration=False)).render(obj)
                except Exception as e:
                    return [Failure(exc_sig("multi/valid-document-rejected", e), f"{type(e).__name__}: {e}\ndocument: {text}\noptions: {opts}\n{shown}", case)]
                a, b = I.canon(I.parse_strict(text.encode()), strip_ws=True), I.canon(I.parse_strict(out.encode()), strip_ws=True)
                if a != b:
                    return [Failure("multi/content-differs", f"{I.diff(a, b)}\ninput:  {text}\noutput: {out}\noptions: {opts}\n{shown}", case)]
                if not schema.validate(etree.fromstring(out.encode())):
                    return [Failure("multi/output-not-schema-valid", f"{schema.error_log.last_error}\noutput: {out}\noptions: {opts}\n{shown}", case)]
                outs[which].append(b)
    return []


def order_preserving(spec, compound):
    """The fragment of the statement: every repeating group is a choice of single elements (compound fields on) or there is
    no repeating group at all; no xs:all (any order is valid there), no mixed content."""
    ok = True

    def walk(p, top=True):
        nonlocal ok
        if p["k"] == "element" and "ref" in p and p.get("max", 1) != 1 and S.substitutes(spec, p["ref"]):
            ok = False          # a repeating head of a substitution group is a repeating choice of its members
        p = S.expand(spec, p)
        if p["k"] == "element":
            t = p["type"].get("anon")
            if t and t["k"] == "complex":
                ct(t)
            return
        if p["k"] == "any":
            return
        if p["k"] == "all":
            ok = False
        rep = p.get("max", 1) != 1
        if rep:
            if p["k"] == "choice" and compound and all(i["k"] == "element" and i.get("max", 1) == 1 for i in p["items"]):
                pass
            else:
                ok = False
        if p["k"] == "choice" and not rep and any(i["k"] != "element" for i in p["items"]):
            pass
        for it in p["items"]:
            walk(it, False)

    def ct(t):
        nonlocal ok
        if t.get("mixed"):
            ok = False
        if t.get("content"):
            walk(t["content"])
    for t in S.all_types(spec):
        if t["k"] == "complex":
            ct(t)
    return ok


def find_root(ws, package, spec, ctx):
    qname = S.qn(spec["tns"], spec["root"])
    for cls in ws.classes(package):
        try:
            meta = ctx.build(cls)
        except Exception:
            continue
        if meta.qname == qname and "." not in cls.__qualname__:
            return cls
    return None


_selftested = False


def execute(case, col):
    global _selftested
    if case.get("family") == "multi":
        return execute_multi(case, col)
    if not _selftested:
        if not G.fidelity_selftest():
            raise RuntimeError("stand-in fidelity self-test failed")
        _selftested = True
    spec = case["spec"]
    xsd = S.render_xsd(spec)
    try:
        schema = etree.XMLSchema(etree.fromstring(xsd.encode()))
    except Exception:
        col.reject()
        return []
    docs = []
    for d in case["docs"]:
        root = etree.fromstring(d.encode())
        if not schema.validate(root):
            col.reject()
            return []
        docs.append(root)
    feats = S.features(spec)
    trees = [S.walk(spec, r) for r in docs]
    nontrivial = len(feats) >= 3 and max(S.count_nodes(t) for t in trees) >= 5
    compound = case["shape"]["compound_fields.enabled"]
    preserving = order_preserving(spec, compound)
    labels = [f"feature:{f}" for f in sorted(feats)] + ["order-preserving-fragment" if preserving else "regrouping-allowed",
                                                         "compound" if compound else "no-compound", f"style:{case['cfg_a']['structure_style']}"]
    col.case((spec, case["docs"], case["shape"], case["cfg_a"], case["cfg_b"]), nontrivial, labels=labels,
             sample={"xsd": xsd[:3000], "documents": [d[:1500] for d in case["docs"]], "config": {**case["shape"], **case["cfg_a"]}, "config_b": case["cfg_b"]})
    fails = []
    outs = {}
    for which in ("cfg_a", "cfg_b"):
        opts = {**case["shape"], **case[which]}
        with G.Workspace() as ws:
            try:
                pkg = ws.generate({"schema.xsd": xsd}, opts, package=ws.unique_package("c02") + ".gen")
                ctx = XmlContext()
                rootcls = find_root(ws, pkg, spec, ctx)
            except Exception as e:
                if type(e).__name__ == "CodegenError" and "Circular Dependencies" in str(e) and opts["structure_style"] != "clusters":
                    # documented outcome: "Try a different structure style and/or enable unnest classes" (the clusters styles exist for this)
                    col.label("generator-declined:circular-imports")
                    break
                if type(e).__name__ == "CodegenError" and "strongly connected types from different namespaces" in str(e) \
                        and opts["structure_style"] == "namespace-clusters":
                    col.label("generator-declined:namespace-clusters")
                    break
                fails.append(Failure(exc_sig(f"generate-or-import/{which}", e), f"{type(e).__name__}: {e}\noptions: {opts}\nxsd:\n{xsd}", case))
                break
            if rootcls is None:
                fails.append(Failure("no-root-class", f"no generated class is bound to {S.qn(spec['tns'], spec['root'])}\noptions: {opts}\nxsd:\n{xsd}", case))
                break
            outs[which] = []
            for k, (root, tree, text) in enumerate(zip(docs, trees, case["docs"])):
                try:
                    with warnings.catch_warnings():
                        warnings.simplefilter("error")
                        obj = XmlParser(context=ctx, config=ParserConfig(fail_on_unknown_properties=True, fail_on_unknown_attributes=True,
                                                                          fail_on_converter_warnings=True)).from_bytes(text.encode(), rootcls)
                except Exception as e:
                    fails.append(Failure(exc_sig("valid-document-rejected", e), f"{type(e).__name__}: {e}\ndocument: {text}\noptions: {opts}\nxsd:\n{xsd}", case))
                    break
                try:
                    out = XmlSerializer(context=ctx, config=SerializerConfig(xml_declaration=False)).render(obj)
                    oroot = etree.fromstring(out.encode())
                    otree = S.walk(spec, oroot)
                except Exception as e:
                    fails.append(Failure(exc_sig("serialize-raise", e), f"{type(e).__name__}: {e}\ndocument: {text}\noptions: {opts}\nxsd:\n{xsd}", case))
                    break
                outs[which].append(otree)
                if S.unordered(otree) != S.unordered(tree):
                    fails.append(Failure("content-differs/" + _kind(S.tree_diff(S.unordered(tree), S.unordered(otree))),
                                         f"{S.tree_diff(S.unordered(tree), S.unordered(otree))}\ninput:  {text}\noutput: {out}\noptions: {opts}\nxsd:\n{xsd}", case))
                    break
                if preserving:
                    if otree != tree:
                        fails.append(Failure("order-differs", f"{S.tree_diff(tree, otree)}\ninput:  {text}\noutput: {out}\noptions: {opts}\nxsd:\n{xsd}", case))
                        break
                    if not schema.validate(oroot):
                        fails.append(Failure("output-not-schema-valid", f"{schema.error_log.last_error}\ninput:  {text}\noutput: {out}\noptions: {opts}\nxsd:\n{xsd}", case))
                        break
        if fails:
            break
    if not fails and "cfg_a" in outs and "cfg_b" in outs and outs["cfg_a"] != outs["cfg_b"]:
        for a, b in zip(outs["cfg_a"], outs["cfg_b"]):
            if a != b:
                fails.append(Failure("output-only-options-change-result", f"{S.tree_diff(a, b)}\nconfig a: {case['cfg_a']}\nconfig b: {case['cfg_b']}\nxsd:\n{xsd}", case))
                break
    return fails


def _kind(msg):
    msg = msg or ""
    for k in ("attributes", "children", "xsi:type", "element "):
        if k in msg:
            return k.strip()
    return "value"


REJECTS_OK = False


def plan(tier, seed):
    n, nsh = {"quick": (1600, 16), "thorough": (48000, 96)}[tier]
    m, msh = {"quick": (400, 4), "thorough": (12000, 24)}[tier]
    return [{"n": n // nsh, "seed": seed * 1000 + i} for i in range(nsh)] + [{"multi": True, "n": m // msh, "seed": seed * 1000 + 500 + i} for i in range(msh)]


def run_shard(shard, col):
    hyp_campaign(multi_cases() if shard.get("multi") else cases(), execute, shard["n"], shard["seed"], col, shrink_budget_s=40, max_shrinks=4)


def replay_case(case):
    return list(execute(case, Collector()) or ())
