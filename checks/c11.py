"""C11 - arbitrary XML survives the generic element model (DESIGN §C11)."""
import itertools
import warnings
from dataclasses import dataclass, field
from typing import Dict, List, Optional

from hypothesis import strategies as st
from lxml import etree

from checks import c01
from vlib import infoset as I
from vlib.codec import deep_eq, first_diff
from vlib.core import Collector, Failure, exc_sig, hyp_campaign

ID = "C11"
LEVEL = "exploration"
RULE = ("Well-formed XML trees over small alphabets: names {a,b,c} x namespaces {none, urn:u1, urn:u2}, texts "
        "{'', 'x', ' ', 'x y', ' x '}, tails, 0-2 attributes (plain / namespaced, values without QName shape). ALL trees with "
        "1 node (full alphabet), 2 nodes (medium alphabet: 4 names, 4 texts, 3 tails, 3 attribute sets) and 3 nodes (reduced "
        "alphabet) are enumerated (quick; thorough: 2 nodes full, 4 nodes reduced); larger trees (<= 40 nodes, depth <= 6) come from a recursive Hypothesis strategy. "
        "Each tree is parsed by the stand-alone TreeParser and inside typed models (single object wildcard, list wildcard, "
        "mixed wildcard, wildcard with choices, attribute maps) under namespace constraints ##any / ##other / ##local / "
        "##targetNamespace / explicit URI, with both handlers. Oracles: (1) a reference generic tree built from an independent "
        "libxml2 parse by the documented AnyElement semantics equals what TreeParser / the wildcard bound; (2) serializing the "
        "parsed object with either writer gives the input's ordered canonical infoset (whitespace-only text next to child "
        "elements excepted); (3) a reference model of the namespace keywords decides whether a child is admissible: admissible "
        "-> bound, otherwise ParserError under strict settings. Non-trivial = >= 2 nesting levels or mixed text; distinct by "
        "(tree, placement).")
ASSUMPTIONS = [
    "attribute values avoid the `prefix:local` shape with a declared prefix: the parser documents that it expands such "
    "values to {uri}local (xsi:type'd primitives are exercised in a separate labelled sub-check)",
    "##other follows the wording of docs/models/fields.md (any namespace other than the parent's, including none)",
]

from xsdata.exceptions import ParserError  # noqa: E402
from xsdata.formats.dataclass.context import XmlContext  # noqa: E402
from xsdata.formats.dataclass.models.generics import AnyElement, DerivedElement  # noqa: E402
from xsdata.formats.dataclass.parsers import TreeParser, XmlParser  # noqa: E402
from xsdata.formats.dataclass.parsers.config import ParserConfig  # noqa: E402
from xsdata.formats.dataclass.serializers import XmlSerializer  # noqa: E402
from xsdata.formats.dataclass.serializers.config import SerializerConfig  # noqa: E402

U1, U2, T = "urn:u1", "urn:u2", "urn:t"


# ---------------------------------------------------------------------------
# placement models (real dataclasses; each wildcard flavour x namespace constraint)

def _mk(kind, ns, class_ns):
    md = {"type": "Wildcard"}
    if ns is not None:
        md["namespace"] = ns
    meta = {"namespace": class_ns} if class_ns else {}
    Meta = type("Meta", (), dict(meta, name="root"))
    if kind == "single":
        @dataclass
        class P:
            any: Optional[object] = field(default=None, metadata=md)
    elif kind == "list":
        @dataclass
        class P:
            any: List[object] = field(default_factory=list, metadata=md)
    elif kind == "mixed":
        @dataclass
        class P:
            any: List[object] = field(default_factory=list, metadata=dict(md, mixed=True))
    elif kind == "choices":
        @dataclass
        class P:
            any: List[object] = field(default_factory=list, metadata=dict(md, choices=(
                {"name": "known", "type": int}, {"name": "a", "type": str, "namespace": "urn:choice"})))
    elif kind == "with-element":
        @dataclass
        class P:
            head: Optional[str] = field(default=None, metadata={"type": "Element", "name": "head", "namespace": ""})
            any: List[object] = field(default_factory=list, metadata=md)
    P.Meta = Meta
    P.__qualname__ = P.__name__ = f"P_{kind}_{(ns or 'none').strip('#').replace(':', '_')}_{'t' if class_ns else 'n'}"
    P.__module__ = __name__
    globals()[P.__name__] = P
    return P


PLACEMENTS = {}
for _k in ("single", "list", "mixed", "choices", "with-element"):
    for _ns in (None, "##any", "##other", "##local", "##targetNamespace", U1):
        for _cns in (None, T):
            PLACEMENTS[f"{_k}|{_ns}|{_cns}"] = (_k, _ns, _cns, _mk(_k, _ns, _cns))
PKEYS = sorted(PLACEMENTS)


def admissible(ns, constraint, class_ns):
    """Reference semantics of the wildcard namespace keywords (docs/models/fields.md)."""
    if constraint is None:
        return ns == class_ns            # no namespace given: the field lives in the class namespace
    if constraint == "##any":
        return True
    if constraint == "##local":
        return ns is None
    if constraint == "##other":
        return ns != class_ns
    if constraint == "##targetNamespace":
        return ns == class_ns if class_ns else True
    return ns == constraint


# ---------------------------------------------------------------------------
# trees

NAMES_FULL = [(ns, n) for ns in (None, U1, U2) for n in ("a", "b", "c")]
TEXTS_FULL = ["", "x", " ", "x y", " x "]
TAILS_FULL = [None, "y", " ", " y "]
ATTRS_FULL = [[], [["k", "v"]], [["{urn:u1}k", "x y"]], [["k", ""], ["{urn:u2}j", " 1 "]]]
NAMES_MED = [(None, "a"), (U1, "a"), (U1, "b"), (U2, "c")]
TEXTS_MED = ["", "x", " ", " x "]
TAILS_MED = [None, "y", " "]
ATTRS_MED = [[], [["k", "v"]], [["{urn:u1}k", "x y"]]]
NAMES_RED = [(None, "a"), (U1, "b")]
TEXTS_RED = ["", "x", " "]
TAILS_RED = [None, "y"]
ATTRS_RED = [[], [["k", "v"]]]


def qn(ns, n):
    return "{%s}%s" % (ns, n) if ns else n


def node_choices(full):
    N, X, L, A = {"full": (NAMES_FULL, TEXTS_FULL, TAILS_FULL, ATTRS_FULL), "medium": (NAMES_MED, TEXTS_MED, TAILS_MED, ATTRS_MED),
                  "reduced": (NAMES_RED, TEXTS_RED, TAILS_RED, ATTRS_RED)}[full]
    for (ns, n), t, tl, at in itertools.product(N, X, L, A):
        yield {"q": qn(ns, n), "text": t, "tail": tl, "attrs": at, "children": []}


def shapes(n):
    """All ordered rooted tree shapes with n nodes as nested lists."""
    if n == 1:
        return [[]]
    out = []

    def forests(k):
        if k == 0:
            return [[]]
        res = []
        for first in range(1, k + 1):
            for t in shapes(first):
                for rest in forests(k - first):
                    res.append([t] + rest)
        return res
    return forests(n - 1)


def enumerate_trees(n, full):
    choices = list(node_choices(full))
    for shape in shapes(n):
        count = 1 + sum(1 for _ in _walk(shape)) - 1

        def fill(shape, it):
            node = dict(next(it))
            node["children"] = [fill(s, it) for s in shape]
            return node
        k = _size(shape)
        for combo in itertools.product(choices, repeat=k):
            yield fill(shape, iter(combo))


def _walk(shape):
    yield shape
    for s in shape:
        yield from _walk(s)


def _size(shape):
    return 1 + sum(_size(s) for s in shape)


@st.composite
def random_trees(draw, depth=0):
    ns, n = draw(st.sampled_from(NAMES_FULL))
    node = {"q": qn(ns, n), "text": draw(st.sampled_from(TEXTS_FULL + ["<&>", "]]>", "é"])), "tail": draw(st.sampled_from(TAILS_FULL)),
            "attrs": draw(st.sampled_from(ATTRS_FULL)), "children": []}
    if depth < 5:
        node["children"] = [draw(random_trees(depth + 1)) for _ in range(draw(st.sampled_from([0, 0, 1, 2, 3])))]
    return node


@st.composite
def cases(draw):
    n = draw(st.integers(1, 3))
    return {"trees": [draw(random_trees()) for _ in range(n)], "lead": draw(st.sampled_from([None, None, "lead", " "])),
            "placement": draw(st.sampled_from(PKEYS)), "handler": draw(st.sampled_from(["lxml", "native"])),
            "writer": draw(st.sampled_from(["lxml", "native"])), "xsi": draw(st.integers(0, 5)) == 0}


def build(t):
    el = etree.Element(t["q"])
    for k, v in t["attrs"]:
        el.set(k, v)
    el.text = t["text"] or None
    for c in t["children"]:
        el.append(build(c))
    el.tail = t["tail"]
    return el


def reference(el, top=False):
    """The documented AnyElement image of an element (docs/models/fields.md Wildcard, xml_parsing.md)."""
    kids = [c for c in el if isinstance(c.tag, str)]
    text = el.text
    if kids and not (text and text.strip()):
        text = None
    tail = el.tail if (el.tail and el.tail.strip()) else None
    return AnyElement(qname=el.tag, text=text if text is not None else "", tail=None if top else tail,
                      children=[reference(c) for c in kids], attributes=dict(el.attrib))


def nodes_depth(t):
    return 1 + max([nodes_depth(c) for c in t["children"]], default=0)


def has_mixed_text(t):
    return bool(t["children"] and (t["text"] or "").strip()) or any((c["tail"] or "").strip() or has_mixed_text(c) for c in t["children"])


# ---------------------------------------------------------------------------


def check_tree_parser(case, col, tree):
    """Stand-alone TreeParser on a single tree."""
    el = build(tree)
    el.tail = None
    data = etree.tostring(el, encoding="utf-8")
    fails = []
    ref = reference(I.parse_strict(data), top=True)
    for h in ("lxml", "native"):
        try:
            got = TreeParser(handler=c01.HANDLERS[h]).from_bytes(data)
        except Exception as e:
            fails.append(Failure(exc_sig(f"treeparser-raise/{h}", e), f"{type(e).__name__}: {e}\ndocument: {data.decode()}", dict(case, only="treeparser")))
            continue
        if not deep_eq(got, ref):
            fails.append(Failure(f"treeparser-differs/{h}", f"{first_diff(ref, got)}\ndocument: {data.decode()}", dict(case, only="treeparser")))
            continue
    return fails


def check_placement(case, col, trees, lead, pkey, handler, writer):
    kind, cons, class_ns, P = PLACEMENTS[pkey]
    root = etree.Element(qn(class_ns, "root"))
    if lead and (kind == "mixed" or lead.strip()):
        root.text = lead
    for t in trees:
        root.append(build(t))
    if kind != "mixed":
        for c in root:
            c.tail = None if not (kind == "single") else None
    data = etree.tostring(root, encoding="utf-8")
    top_ns = [etree.QName(c).namespace for c in root]
    ok = [admissible(ns, cons, class_ns) for ns in top_ns]
    if kind == "choices":
        # the declared choices are typed elements: `known` (int) and {urn:choice}a; generated trees never use them
        pass
    if kind == "with-element":
        ok = [o and not (etree.QName(c).localname == "head" and etree.QName(c).namespace is None) for o, c in zip(ok, root)]
    fails = []
    cfg = ParserConfig(fail_on_unknown_properties=True, fail_on_unknown_attributes=True, fail_on_converter_warnings=True)
    try:
        with warnings.catch_warnings():
            warnings.simplefilter("error")
            got = XmlParser(context=XmlContext(), handler=c01.HANDLERS[handler], config=cfg).from_bytes(data, P)
    except ParserError as e:
        if all(ok):
            fails.append(Failure(f"admissible-rejected/{kind}/{cons}", f"ParserError: {e}\nconstraint {cons}, class namespace {class_ns}\ndocument: {data.decode()}", case))
        return fails
    except Exception as e:
        return [Failure(exc_sig(f"placement-raise/{kind}", e), f"{type(e).__name__}: {e}\ndocument: {data.decode()}", case)]
    if not all(ok):
        bad = [c.tag for c, o in zip(root, ok) if not o]
        return [Failure(f"inadmissible-accepted/{kind}/{cons}", f"{bad} are not admissible for namespace={cons!r} in class namespace {class_ns!r} but were bound: {got!r}\ndocument: {data.decode()}", case)]
    # (1) reference image
    sroot = I.parse_strict(data)
    refs = [reference(c) for c in sroot]
    value = got.any
    lead_text = sroot.text if sroot.text and sroot.text.strip() else None
    if kind in ("list", "choices", "with-element"):
        for r in refs:
            r.tail = None
        if lead_text is not None:
            refs = [lead_text] + refs        # documented: the element's own text is prepended to a list wildcard
        if not deep_eq(value, refs):
            fails.append(Failure(f"placement-differs/{kind}", f"{first_diff(refs, value)}\ndocument: {data.decode()}", case))
    elif kind == "mixed":
        exp = ([sroot.text] if sroot.text and sroot.text.strip() else []) + refs
        if not deep_eq(value, exp):
            fails.append(Failure("placement-differs/mixed", f"{first_diff(exp, value)}\ndocument: {data.decode()}", case))
    elif kind == "single":
        for r in refs:
            r.tail = None
        exp = None if not refs else (refs[0] if len(refs) == 1 else AnyElement(children=refs))
        if lead_text is not None:
            # documented: text of the owning element is kept in a generic element that nests what was bound so far
            exp = AnyElement(text=lead_text, children=[exp] if exp is not None else [])
        if not deep_eq(value, exp):
            fails.append(Failure("placement-differs/single", f"{first_diff(exp, value)}\ndocument: {data.decode()}", case))
    # (2) serialize back
    try:
        out = XmlSerializer(context=XmlContext(), config=SerializerConfig(xml_declaration=False), writer=c01.WRITERS[writer]).render(got)
    except Exception as e:
        fails.append(Failure(exc_sig(f"placement-serialize-raise/{kind}", e), f"{type(e).__name__}: {e}\nparsed: {got!r}\ndocument: {data.decode()}", case))
        return fails
    a, b = I.canon_doc(data, strip_ws=True), I.canon_doc(out, strip_ws=True)
    if a != b:
        fails.append(Failure(f"placement-roundtrip-differs/{kind}/{writer}", f"{I.diff(a, b)}\ninput:  {data.decode()}\noutput: {out}", case))
    return fails


XS = "http://www.w3.org/2001/XMLSchema"


def check_xsi_primitive(case, col):
    """Labelled sub-check: xsi:type'd primitives captured by a wildcard - directly and nested inside generic content,
    with the prefixes declared on the root, locally, or re-bound locally - come back with value and datatype."""
    fails = []
    xsi = 'xmlns:xsi="http://www.w3.org/2001/XMLSchema-instance"'
    for lex, tp in (("5", "int"), ("0", "int"), ("false", "boolean"), ("1.5", "decimal"), ("x", "string"), ("2020-01-01", "date"), ("0", "decimal")):
        docs = [
            f'<root xmlns:xs="{XS}" {xsi}><a xsi:type="xs:{tp}">{lex}</a><b><c xsi:type="xs:{tp}">{lex}</c></b></root>',
            f'<root><a xmlns:q="{XS}" {xsi} xsi:type="q:{tp}">{lex}</a><b><d><c xmlns:q="{XS}" {xsi} xsi:type="q:{tp}">{lex}</c></d></b></root>',
            f'<root xmlns:q="urn:elsewhere" {xsi}><b q:k="v"><c xmlns:q="{XS}" xsi:type="q:{tp}">{lex}</c><c xsi:type="q:{tp}">{lex}</c></b></root>',
        ]
        P = PLACEMENTS["list|##any|None"][3]
        for data in docs:
            data = data.encode()
            for h in ("lxml", "native"):
                try:
                    got = XmlParser(context=XmlContext(), handler=c01.HANDLERS[h]).from_bytes(data, P)
                    out = XmlSerializer(context=XmlContext(), config=SerializerConfig(xml_declaration=False)).render(got)
                    a, b = I.canon_doc(data, strip_ws=True, resolve=True), I.canon_doc(out, strip_ws=True, resolve=True)
                except Exception as e:
                    fails.append(Failure(exc_sig("xsi-primitive-raise", e), f"{type(e).__name__}: {e}\ndocument: {data.decode()}", dict(case, only="xsi")))
                    continue
                narrow = tp in ("int",)      # xsdata documents narrowing of numeric datatypes by value (xs:int -> xs:short)
                if _values_only(a, narrow) != _values_only(b, narrow):
                    fails.append(Failure("xsi-primitive-roundtrip", f"{I.diff(_values_only(a, narrow), _values_only(b, narrow))}\ninput:  {data.decode()}\noutput: {out}", dict(case, only="xsi")))
    return fails


def check_type_valued_attributes(case, col):
    """Labelled sub-check: an ordinary attribute whose value names a built-in XML Schema type through a declared prefix
    (type="xs:string") is expanded by the parser as documented and must be written back as a prefixed name that resolves
    to the same type - in generic elements and in wildcard attribute maps."""
    fails = []
    for tp in ("string", "int", "date", "anyURI"):
        docs = [f'<root xmlns:xs="{XS}"><a type="xs:{tp}" k="v">t</a><b><c base="xs:{tp}"/></b></root>',
                f'<root><a xmlns:q="{XS}" type="q:{tp}"><c xmlns:q="{XS}" ref="q:{tp}" k="plain"/></a></root>']
        P = PLACEMENTS["list|##any|None"][3]
        for data in docs:
            for h in ("lxml", "native"):
                for w in ("lxml", "native"):
                    try:
                        got = XmlParser(context=XmlContext(), handler=c01.HANDLERS[h]).from_bytes(data.encode(), P)
                        out = XmlSerializer(context=XmlContext(), config=SerializerConfig(xml_declaration=False), writer=c01.WRITERS[w]).render(got)
                        root = I.parse_strict(out.encode())
                    except Exception as e:
                        fails.append(Failure(exc_sig("type-valued-attribute-raise", e), f"{type(e).__name__}: {e}\ndocument: {data}", dict(case, only="typeattr")))
                        continue
                    seen = 0
                    for el in root.iter("*"):
                        for k, v in el.attrib.items():
                            if k in ("type", "base", "ref"):
                                seen += 1
                                prefix, _, local = v.rpartition(":")
                                if v.startswith("{") or not prefix or el.nsmap.get(prefix) != XS or local != tp:
                                    fails.append(Failure("type-valued-attribute-roundtrip", f"{k}={v!r} no longer names {{{XS}}}{tp} through a prefix\n"
                                                         f"input:  {data}\noutput: {out}", dict(case, only="typeattr")))
                    if seen != 2:
                        fails.append(Failure("type-valued-attribute-lost", f"input:  {data}\noutput: {out}", dict(case, only="typeattr")))
    return fails


def _values_only(c, drop_type=True):
    """canonical tree, optionally without xsi:type attributes (numeric datatypes are narrowed by value; the value must survive)."""
    if isinstance(c, str):
        return c
    attrs = tuple((k, v) for k, v in c[2] if not (drop_type and k.endswith("}type")))
    return (c[0], c[1], attrs, tuple(_values_only(x, drop_type) for x in c[3]))


def execute(case, col):
    trees = case["trees"]
    depth = max(nodes_depth(t) for t in trees)
    mixed = any(has_mixed_text(t) for t in trees) or bool((case.get("lead") or "").strip())
    nontrivial = depth >= 2 or mixed
    only = case.get("only")
    fails = []
    col.case((case["trees"], case["placement"], case.get("lead"), case["handler"], case["writer"]), nontrivial,
             labels=[f"placement:{case['placement'].split('|')[0]}", f"constraint:{case['placement'].split('|')[1]}",
                     f"depth={min(depth, 4)}", "mixed-text" if mixed else "no-mixed-text"],
             sample={"trees": trees, "placement": case["placement"], "handler": case["handler"], "writer": case["writer"]})
    if only in (None, "treeparser"):
        fails += check_tree_parser(case, col, trees[0])
    if only is None:
        fails += check_placement(case, col, trees, case.get("lead"), case["placement"], case["handler"], case["writer"])
    if (case.get("xsi") and only is None) or only == "xsi":
        col.label("sub-check:xsi-typed-primitives")
        fails += check_xsi_primitive(case, col)
    if (case.get("xsi") and only is None) or only == "typeattr":
        col.label("sub-check:type-valued-attributes")
        fails += check_type_valued_attributes(case, col)
    return fails


def plan(tier, seed):
    shards = []
    if tier == "quick":
        shards += [{"enum": 1, "full": "full", "part": 0, "parts": 1}]
        shards += [{"enum": 2, "full": "medium", "part": i, "parts": 6} for i in range(6)]
        shards += [{"enum": 3, "full": "reduced", "part": i, "parts": 6} for i in range(6)]
        n, nsh = 3000, 3
    else:
        shards += [{"enum": 1, "full": "full", "part": 0, "parts": 1}]
        shards += [{"enum": 2, "full": "full", "part": i, "parts": 24} for i in range(24)]
        shards += [{"enum": 3, "full": "reduced", "part": i, "parts": 8} for i in range(8)]
        shards += [{"enum": 4, "full": "reduced", "part": i, "parts": 24} for i in range(24)]
        n, nsh = 300000, 16
    shards += [{"n": n // nsh, "seed": seed * 1000 + i} for i in range(nsh)]
    return shards


def run_shard(shard, col):
    if "enum" in shard:
        seen = set()
        for i, tree in enumerate(enumerate_trees(shard["enum"], shard["full"])):
            if i % shard["parts"] != shard["part"]:
                continue
            case = {"trees": [tree], "lead": None, "placement": PKEYS[i % len(PKEYS)], "handler": ("lxml", "native")[i % 2],
                    "writer": ("lxml", "native")[(i // 2) % 2], "xsi": False}
            for f in execute(case, col):
                if f.sig not in seen or not col.is_known(f.sig):
                    seen.add(f.sig)
                    col.fail(f)
        col.exhaustive.append(f"all trees with {shard['enum']} element nodes over the {shard['full']} alphabet")
        return
    hyp_campaign(cases(), execute, shard["n"], shard["seed"], col)


def replay_case(case):
    return list(execute(case, Collector()) or ())
