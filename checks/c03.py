"""C03 - serialized XML is well-formed and says exactly what the metadata says (DESIGN §C03)."""
import dataclasses as _dc
import typing as _t
import warnings
import xml.sax
import xml.sax.handler
from io import BytesIO

from hypothesis import strategies as st
from lxml import etree

from checks import c01
from vlib import expect as E
from vlib import infoset as I
from vlib import models as M
from vlib.core import Failure, exc_sig, hyp_campaign

ID = "C03"
LEVEL = "exploration"
RULE = ("Hypothesis draws a model, an instance (strings over all of Unicode incl. markup characters, ']]>', quotes, CR, astral "
        "characters and - in a labelled fraction - XML-illegal code points), a writer and a user prefix map (default namespace "
        "as None or '', prefixes colliding with generated ns<N>/xsi/xs, one URI under two prefixes, unused entries, maps that "
        "force xmlns='' resets around QName values, and - labelled hostile - xml/xmlns rebinding, non-NCName prefixes, empty "
        "URIs). Oracles: (1) the output parses with libxml2 (strict) and with expat in namespace mode; (2) an expected "
        "document computed from the ModelSpec by an independent reading of the documented metadata (vlib/expect.py: names, "
        "namespaces and their inheritance, field order, sequence interleaving, wrappers, xsi:nil/xsi:type, token joining) "
        "matches the real document node by node, values compared through the reference lexical model and QName-valued "
        "content resolved with the declarations in scope. For illegal characters or hostile maps the call may raise a "
        "ValueError (all xsdata errors derive from it); any other outcome is a violation. Non-trivial = two or more "
        "namespaces in the document or a non-empty user map; distinct by fingerprint of (spec, instance, config).")
ASSUMPTIONS = [
    "vlib/expect.py is an independent implementation of the documented metadata rules; it never consults XmlMeta/XmlVar",
    "values are compared by value through vlib/xsdref.py, so xsdata's choice among equivalent spellings does not matter",
    "model generator confined to the documented fragment as for C01; regions of recorded findings excluded by construction",
]

from xsdata.formats.dataclass.context import XmlContext  # noqa: E402
from xsdata.formats.dataclass.serializers import XmlSerializer  # noqa: E402
from xsdata.formats.dataclass.serializers.config import SerializerConfig  # noqa: E402

OPTS = M.Opts(cr=True)
OPTS_HOSTILE = M.Opts(cr=True, hostile_text=True)
HOSTILE_PREFIXES = ["xml", "xmlns", "1bad", "a:b", "p q", "", "é"]


@st.composite
def cases(draw):
    hostile_text = draw(st.integers(0, 7)) == 0
    mi = draw(M.model_and_instance(OPTS_HOSTILE if hostile_text else OPTS))
    uris = M.model_uris(mi["spec"], mi["inst"])
    cfg = draw(c01.configs(uris))
    cfg["hostile_text"] = hostile_text
    cfg["hostile_map"] = False
    if draw(st.integers(0, 9)) == 0:
        cfg["hostile_map"] = True
        cfg["ns_map"] = (cfg["ns_map"] or []) + [[draw(st.sampled_from(HOSTILE_PREFIXES[:5])),
                                                   draw(st.sampled_from(list(uris) + ["urn:h", "http://www.w3.org/XML/1998/namespace"]))]]
    mi["cfg"] = cfg
    return mi


class _NsCheck(xml.sax.handler.ContentHandler):
    pass


def expat_ok(data: bytes):
    p = xml.sax.make_parser()
    p.setFeature(xml.sax.handler.feature_namespaces, True)
    p.setFeature(xml.sax.handler.feature_external_ges, False)
    p.setContentHandler(_NsCheck())
    try:
        p.parse(BytesIO(data))
        return None
    except Exception as e:       # SAXParseException
        return str(e)


ILLEGAL = set(map(chr, list(range(0, 9)) + [11, 12] + list(range(14, 32)) + [0xFFFE, 0xFFFF])) | {chr(c) for c in range(0xD800, 0xE000)}


def has_illegal(data):
    if isinstance(data, str):
        return any(ch in ILLEGAL for ch in data)
    if isinstance(data, dict):
        return any(has_illegal(k) or has_illegal(v) for k, v in data.items())
    if isinstance(data, list):
        return any(has_illegal(v) for v in data)
    return False


def execute(case, col):
    if case.get("family") == "anytype":
        return execute_any(case, col)
    try:
        model = M.Model(case["spec"])
    except Exception as e:
        raise RuntimeError(f"generator produced an invalid model: {e!r}\n{M.source(case['spec'], 'x')}")
    try:
        return _execute(case, col, model)
    finally:
        model.dispose()


def _execute(case, col, model):
    spec, cfg = case["spec"], case["cfg"]
    obj = model.decode(case["inst"])
    indent = None if (c01.has_mixed(spec) or c01.has_wildcard(spec)) else cfg["indent"]
    ns_map = {k: v for k, v in cfg["ns_map"]} if cfg["ns_map"] else None
    if ns_map and (None in ns_map or "" in ns_map) and not case.get("no_guards") and (
            M.has_plain_qname([case["inst"], spec["enums"], spec["classes"]]) or M.has_plain_type(spec)):
        ns_map.pop(None, None)
        ns_map.pop("", None)
    illegal = has_illegal([case["inst"], [c["fields"] for c in spec["classes"]], spec["enums"]])
    may_raise = illegal or cfg.get("hostile_map")
    labels = [f"writer:{cfg['writer']}", "ns_map" if ns_map else "no-ns_map"]
    if illegal:
        labels.append("illegal-characters")
    if cfg.get("hostile_map"):
        labels.append("hostile-map")
    if ns_map:
        used = set(M.model_uris(spec, case["inst"]))
        if any(not p and u in used for p, u in ns_map.items()):
            labels.append("ns_map:default-namespace-used-by-model")
        if any(p in ("ns0", "ns1", "ns2", "xsi", "xs") for p in ns_map):
            labels.append("ns_map:collides-with-generated-prefix")
    scfg = SerializerConfig(indent=indent, xml_declaration=cfg["xml_declaration"], ignore_default_attributes=cfg["ignore_default_attributes"])
    try:
        with warnings.catch_warnings():
            warnings.simplefilter("ignore")
            xml_text = XmlSerializer(context=XmlContext(), config=scfg, writer=c01.WRITERS[cfg["writer"]]).render(obj, ns_map=ns_map)
    except ValueError as e:
        col.case((spec, case["inst"], cfg), True, labels=labels + ["raised"])
        if may_raise:
            col.label("rejected-hostile-input")
            return []
        return [Failure(exc_sig("serialize-raise", e), f"{type(e).__name__}: {e}\nns_map: {ns_map}\nobject: {obj!r}\nmodel:\n{model.src}", case)]
    except Exception as e:
        col.case((spec, case["inst"], cfg), True, labels=labels + ["raised"])
        return [Failure(exc_sig("serialize-raise-other", e) + ("/hostile" if may_raise else ""),
                        f"{type(e).__name__}: {e} (not a ValueError / xsdata error)\nns_map: {ns_map}\nobject: {obj!r}\nmodel:\n{model.src}", case)]
    data = xml_text.encode("utf-8", "surrogatepass") if not xml_text.lstrip().startswith("<?xml") else xml_text.encode("utf-8", "surrogatepass")
    nontrivial = xml_text.count("xmlns") >= 2 or bool(ns_map)
    col.case((spec, case["inst"], cfg), nontrivial, labels=labels,
             sample={"model": model.src.split("import upper, suffix, cap\n")[-1], "instance": repr(obj)[:1200], "ns_map": cfg["ns_map"],
                     "writer": cfg["writer"], "xml": xml_text[:2000]})
    # (1) well-formed, namespace-well-formed: two independent parsers
    try:
        root = etree.fromstring(data, I.STRICT)
    except etree.XMLSyntaxError as e:
        kind = "illegal-char" if illegal else ("hostile-map" if cfg.get("hostile_map") else "plain")
        return [Failure(f"not-wellformed/{cfg['writer']}/{kind}", f"libxml2: {e}\nns_map: {ns_map}\nxml: {xml_text[:1500]}\nmodel:\n{model.src}", case)]
    err = expat_ok(data)
    if err:
        return [Failure(f"not-wellformed-expat/{cfg['writer']}", f"expat: {err}\nns_map: {ns_map}\nxml: {xml_text[:1500]}\nmodel:\n{model.src}", case)]
    # (2) says what the metadata says
    try:
        exp = E.Reader(spec, cfg["ignore_default_attributes"]).document(case["inst"])
    except LookupError as e:
        raise RuntimeError(f"reference reader failed: {e}\n{model.src}")
    r = E.compare(spec, exp, root)
    if r:
        key, msg = r
        return [Failure(f"meaning/{key}", f"{msg}\nns_map: {ns_map}\nxml: {xml_text[:2500]}\nobject: {obj!r}\nmodel:\n{model.src}", case)]
    return []


# ---------------------------------------------------------------------------
# object-typed element fields (docs/models/types.md: "any primitive ... xsi:type"): a fixed model, generated values


@_dc.dataclass
class AnyHolder:
    class Meta:
        name = "holder"
        namespace = "urn:h"
    one: _t.Optional[object] = _dc.field(default=None, metadata={"type": "Element"})
    many: _t.List[object] = _dc.field(default_factory=list, metadata={"type": "Element", "name": "v"})
ANY_VALUES = [("int", 0), ("int", 7), ("int", -12), ("bool", False), ("bool", True), ("float", 0.0), ("float", 1.5), ("decimal", "0"), ("decimal", "1.50"),
              ("str", "0"), ("str", "abc"), ("str", "false"), ("date", "2001-10-26"), ("time", "21:32:52"), ("duration", "P1Y"), ("qname", "{urn:q}n")]
XSD_OF = {"int": {"int", "integer", "long", "short", "byte", "unsignedByte", "unsignedShort", "unsignedInt", "nonNegativeInteger", "positiveInteger",
                  "negativeInteger", "nonPositiveInteger", "unsignedLong"}, "bool": {"boolean"}, "float": {"double", "float"}, "decimal": {"decimal"},
          "date": {"date"}, "time": {"time"}, "duration": {"duration"}, "qname": {"QName"}, "str": {"string", None}}


def _anyvalue(kind, v):
    from decimal import Decimal
    from xml.etree.ElementTree import QName
    from xsdata.models.datatype import XmlDate, XmlDuration, XmlTime
    return {"decimal": Decimal, "date": XmlDate.from_string, "time": XmlTime.from_string, "duration": XmlDuration, "qname": QName}.get(kind, lambda x: x)(v)


@st.composite
def any_cases(draw):
    vals = draw(st.lists(st.sampled_from(ANY_VALUES), min_size=1, max_size=5))
    return {"family": "anytype", "one": draw(st.one_of(st.none(), st.sampled_from(ANY_VALUES))), "many": vals,
            "writer": draw(st.sampled_from(sorted(c01.WRITERS))), "ns_map": draw(st.sampled_from([None, [["xs", "http://www.w3.org/2001/XMLSchema"]], [["h", "urn:h"]]]))}


def execute_any(case, col):
    XS = "http://www.w3.org/2001/XMLSchema"
    XSI = "{http://www.w3.org/2001/XMLSchema-instance}type"
    obj = AnyHolder(one=_anyvalue(*case["one"]) if case["one"] else None, many=[_anyvalue(k, v) for k, v in case["many"]])
    ns_map = {k: v for k, v in case["ns_map"]} if case["ns_map"] else None
    kinds = {k for k, _ in case["many"]} | ({case["one"][0]} if case["one"] else set())
    col.case(("anytype", case["one"], case["many"], case["writer"], case["ns_map"]), len(kinds) >= 2,
             labels=["family:object-typed-elements", f"writer:{case['writer']}"] + [f"value:{k}" for k in sorted(kinds)],
             sample={"one": case["one"], "many": case["many"], "writer": case["writer"]})
    try:
        xml_text = XmlSerializer(context=XmlContext(), config=SerializerConfig(xml_declaration=False), writer=c01.WRITERS[case["writer"]]).render(obj, ns_map=ns_map)
        root = etree.fromstring(xml_text.encode(), I.STRICT)
    except Exception as e:
        return [Failure(exc_sig("anytype/serialize-or-parse", e), f"{type(e).__name__}: {e}\nobject: {obj!r}", case)]
    expected = ([case["one"]] if case["one"] else []) + list(case["many"])
    els = list(root)
    if [etree.QName(e).localname for e in els] != (["one"] if case["one"] else []) + ["v"] * len(case["many"]):
        return [Failure("anytype/children", f"children {[e.tag for e in els]}\nxml: {xml_text}\nobject: {obj!r}", case)]
    for (kind, v), el in zip(expected, els):
        t = el.get(XSI)
        local = None
        if t is not None:
            prefix, _, local = t.rpartition(":")
            if el.nsmap.get(prefix or None) != XS:
                return [Failure("anytype/xsi-type-namespace", f"<{el.tag}> xsi:type={t!r} does not resolve to the XML Schema namespace\nxml: {xml_text}", case)]
        if local not in XSD_OF[kind]:
            return [Failure(f"anytype/xsi-type-of-{kind}", f"a {kind} value {v!r} in an object-typed element is written with xsi:type={t!r}; the metadata prescribes "
                            f"one of {sorted(x for x in XSD_OF[kind] if x)}\nxml: {xml_text}\nobject: {obj!r}", case)]
    return []


def plan(tier, seed):
    n, nsh = {"quick": (12000, 16), "thorough": (480000, 64)}[tier]
    m = {"quick": 1500, "thorough": 30000}[tier]
    return [{"n": n // nsh, "seed": seed * 1000 + i} for i in range(nsh)] + [{"anytype": True, "n": m, "seed": seed * 1000 + 900}]


def run_shard(shard, col):
    if shard.get("anytype"):
        hyp_campaign(any_cases(), execute, shard["n"], shard["seed"], col)
    else:
        hyp_campaign(cases(), execute, shard["n"], shard["seed"], col)


def replay_case(case):
    from vlib.core import Collector
    return list(execute(case, Collector()) or ())
