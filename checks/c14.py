"""C14 - parsers, serializers and the binding context are history-independent (DESIGN §C14)."""
import itertools
import json
import sys
import types
import warnings
from dataclasses import dataclass, field
from typing import Dict, List, Optional, Union
from xml.etree.ElementTree import QName

from hypothesis import strategies as st

from vlib.codec import deep_eq
from vlib.core import Collector, Failure, hyp_campaign

ID = "C14"
LEVEL = "exploration"
RULE = ("Histories over a pool of operations on SHARED instances (one XmlContext, one XmlParser per handler, XmlSerializer, "
        "JsonParser, JsonSerializer, DictEncoder/Decoder, TreeParser): parse / serialize / encode / decode of models built to "
        "collide (one namespace-less child class under parents in different namespaces, classes with the same qualified name "
        "in different modules, subclasses reached by xsi:type, the same xsi:type name in two unrelated families, wildcards "
        "meeting many names, union fields, modules with and without __NAMESPACE__), failing calls (malformed documents, wrong "
        "class, unconvertible values), parsing without a target class, documents re-binding prefixes, importing a new model "
        "module mid-history, user prefix maps, models whose forward references resolve only through SerializerConfig.globalns. After EVERY step the outcome on the shared instances (value by structural "
        "equality, or exception type) must equal the outcome of the same call on freshly constructed instances in the same "
        "process. All histories of length <= 2 (quick; <= 3 thorough) over the pool are enumerated; longer histories (<= 30 "
        "steps) come from a Hypothesis rule-based state machine. Non-trivial = the history holds a failing call or two "
        "different models before the compared call; distinct by the operation sequence.")
ASSUMPTIONS = [
    "fresh and shared instances live in the same process and therefore see the same set of imported model classes",
    "serializer / parser configuration objects are created per instance (fresh) or once (shared) with identical settings",
]

from xsdata.formats.dataclass.context import XmlContext  # noqa: E402
from xsdata.formats.dataclass.parsers import DictDecoder, JsonParser, TreeParser, XmlParser  # noqa: E402
from xsdata.formats.dataclass.parsers.config import ParserConfig  # noqa: E402
from xsdata.formats.dataclass.parsers.handlers import LxmlEventHandler, XmlEventHandler  # noqa: E402
from xsdata.formats.dataclass.serializers import DictEncoder, JsonSerializer, XmlSerializer  # noqa: E402
from xsdata.formats.dataclass.serializers.config import SerializerConfig  # noqa: E402
from xsdata.models.datatype import XmlDate, XmlDateTime  # noqa: E402

# ---------------------------------------------------------------------------
# the model pool (module level so that the classes are importable / locatable)

@dataclass
class Child:                      # no namespace of its own: inherits from whoever uses it
    v: Optional[str] = field(default=None, metadata={"type": "Element"})
    k: Optional[int] = field(default=None, metadata={"type": "Attribute"})


@dataclass
class A:
    class Meta:
        name = "a"
        namespace = "urn:a"
    c: Optional[Child] = field(default=None, metadata={"type": "Element"})
    n: Optional[int] = field(default=None, metadata={"type": "Element"})
    q: Optional[QName] = field(default=None, metadata={"type": "Element"})


@dataclass
class B:
    class Meta:
        name = "b"
        namespace = "urn:b"
    c: Optional[Child] = field(default=None, metadata={"type": "Element"})
    items: List[Child] = field(default_factory=list, metadata={"type": "Element", "name": "item"})


@dataclass
class Shape:
    class Meta:
        name = "shape"
        namespace = "urn:s"
    id: Optional[int] = field(default=None, metadata={"type": "Attribute"})


@dataclass
class Circle(Shape):
    class Meta:
        name = "circle"
        namespace = "urn:s"
    r: Optional[float] = field(default=None, metadata={"type": "Element"})


@dataclass
class Vehicle:
    class Meta:
        name = "vehicle"
        namespace = "urn:v"
    w: Optional[int] = field(default=None, metadata={"type": "Element"})


@dataclass
class Car(Vehicle):
    class Meta:
        name = "circle"             # the same type name as Circle, in another family and namespace map
        namespace = "urn:v"
        target_namespace = "urn:s"
    doors: Optional[int] = field(default=None, metadata={"type": "Element"})


@dataclass
class Drawing:
    class Meta:
        name = "drawing"
        namespace = "urn:s"
    shape: Optional[Shape] = field(default=None, metadata={"type": "Element"})
    ride: Optional[Vehicle] = field(default=None, metadata={"type": "Element", "namespace": "urn:v"})
    any: List[object] = field(default_factory=list, metadata={"type": "Wildcard", "namespace": "##other"})
    u: Optional[Union[int, str]] = field(default=None, metadata={"type": "Element"})
    attrs: Dict[str, str] = field(default_factory=dict, metadata={"type": "Attributes", "namespace": "##other"})


@dataclass
class Pick:
    class Meta:
        name = "pick"
    value: Optional[Union[Circle, Child]] = field(default=None, metadata={"type": "Element"})
    many: List[Union[int, Child]] = field(default_factory=list, metadata={"type": "Elements", "choices": (
        {"name": "i", "type": int}, {"name": "c", "type": Child})})


@dataclass
class KBase:                      # a base with a namespace ...
    class Meta:
        namespace = "urn:k"
    k: Optional[str] = field(default=None, metadata={"type": "Element"})


@dataclass
class Kid(KBase):                 # ... and a subclass without a Meta of its own: its own fields follow whoever uses it
    own: Optional[str] = field(default=None, metadata={"type": "Element"})


@dataclass
class PA:
    class Meta:
        name = "pa"
        namespace = "urn:a"
    kid: Optional[Kid] = field(default=None, metadata={"type": "Element"})


@dataclass
class PB:
    class Meta:
        name = "pb"
        namespace = "urn:b"
    kid: Optional[Kid] = field(default=None, metadata={"type": "Element"})


@dataclass
class Sched:                      # a compound field whose choices are told apart by the value, not by its python type
    class Meta:
        name = "sched"
    when: List[object] = field(default_factory=list, metadata={"type": "Elements", "choices": (
        {"name": "d", "type": XmlDate}, {"name": "dt", "type": XmlDateTime}, {"name": "n", "type": int})})


def _local_models():
    """Classes that are not module-level names: the forward reference resolves only through SerializerConfig.globalns."""
    @dataclass
    class LocalInner:
        x: Optional[int] = field(default=None, metadata={"type": "Element"})

    @dataclass
    class LocalOuter:
        class Meta:
            name = "localOuter"
        inner: Optional["LocalInner"] = field(default=None, metadata={"type": "Element"})
        more: List["LocalInner"] = field(default_factory=list, metadata={"type": "Element"})

    return LocalOuter, LocalInner


# (bound to other module-level names on purpose: "LocalInner" must not resolve through this module's globals)
_LOuter, _LInner = _local_models()
LOCALNS = {"LocalInner": _LInner, "Optional": Optional, "List": List}

XSI = 'xmlns:xsi="http://www.w3.org/2001/XMLSchema-instance"'
DOCS = {
    "a1": '<x:a xmlns:x="urn:a"><x:c k="1"><x:v>one</x:v></x:c><x:n>5</x:n><x:q xmlns:p="urn:p1">p:name</x:q></x:a>',
    "a2": '<a xmlns="urn:a"><c><v>two</v></c><q xmlns:p="urn:p2">p:name</q></a>',
    "b1": '<y:b xmlns:y="urn:b"><y:c><y:v>bee</y:v></y:c><y:item k="2"/><y:item><y:v>i</y:v></y:item></y:b>',
    "d1": f'<s:drawing xmlns:s="urn:s" xmlns:v="urn:v" {XSI} xmlns:o="urn:o" o:z="1"><s:shape xsi:type="s:circle" id="3"><s:r>1.5</s:r></s:shape>'
          '<v:ride xsi:type="s:circle"><v:w>2</v:w><v:doors>4</v:doors></v:ride><o:w>t</o:w><s:u>7</s:u></s:drawing>',
    "d2": f'<drawing xmlns="urn:s" {XSI} xmlns:p="urn:s"><shape xsi:type="p:circle"><r>2</r></shape><q:x xmlns:q="urn:q" a="1"><q:y/>tail</q:x><u>text</u></drawing>',
    "p1": f'<pick {XSI}><value k="1"><v>c</v></value><i>1</i><c><v>x</v></c><i>2</i></pick>',
    "bad-syntax": '<x:a xmlns:x="urn:a"><x:c>',
    "bad-unknown": '<x:a xmlns:x="urn:a"><x:nope/></x:a>',
    "bad-value": '<x:a xmlns:x="urn:a"><x:n>many</x:n></x:a>',
    "bad-prefix": '<x:a xmlns:x="urn:a"><x:q>zz:name</x:q></x:a>',
    "ds": f'<s:drawing xmlns:s="urn:s" {XSI}><s:shape xsi:type="s:circle" id="3"><s:r>1.5</s:r></s:shape></s:drawing>',
    "dr": f'<s:drawing xmlns:s="urn:s" xmlns:v="urn:v" {XSI}><v:ride xsi:type="s:circle"><v:w>2</v:w><v:doors>4</v:doors></v:ride></s:drawing>',
    "rootx1": f'<s:shape xmlns:s="urn:s" {XSI} xsi:type="s:circle"><s:r>1</s:r></s:shape>',
    "rootx2": f'<s:vehicle xmlns:s="urn:v" xmlns:t="urn:s" {XSI} xsi:type="t:circle"><s:doors>2</s:doors></s:vehicle>',
    "rootx3": f'<shape xmlns="urn:s" {XSI} xsi:type="circle"><r>3</r></shape>',
    "rootx4": f'<t:shape xmlns:t="urn:s" xmlns:s="urn:s" {XSI} xsi:type="s:circle"><t:r>4</t:r></t:shape>',
    "pa": '<a:pa xmlns:a="urn:a" xmlns:k="urn:k"><a:kid><k:k>1</k:k><a:own>x</a:own></a:kid></a:pa>',
    "pb": '<b:pb xmlns:b="urn:b" xmlns:k="urn:k"><b:kid><k:k>2</k:k><b:own>y</b:own></b:kid></b:pb>',
    "rootx5": f'<o:w xmlns:o="urn:o" xmlns:s="urn:s" {XSI} xsi:type="s:circle"><s:r>5</s:r></o:w>',
    "plain-w": '<o:w xmlns:o="urn:o">t</o:w>',
    "rebind": f'<s:drawing xmlns:s="urn:other" {XSI}><t:shape xmlns:t="urn:s" xmlns:s="urn:s" xsi:type="s:circle"/></s:drawing>',
}
OBJS = {
    "A": lambda: A(c=Child("one", 1), n=5, q=QName("urn:p1", "name")),
    "B": lambda: B(c=Child("bee"), items=[Child(k=2), Child("i")]),
    "D": lambda: Drawing(shape=Circle(id=3, r=1.5), ride=Car(w=2, doors=4), u=7, attrs={"{urn:o}z": "1"}),
    "P": lambda: Pick(value=Child("c", 1), many=[1, Child("x"), 2]),
    "PA": lambda: PA(kid=Kid(k="1", own="x")),
    "PB": lambda: PB(kid=Kid(k="2", own="y")),
    "L": lambda: _LOuter(inner=_LInner(x=7), more=[_LInner(x=1), _LInner()]),
    "S1": lambda: Sched(when=[XmlDate(2001, 10, 26), 7]),
    "S2": lambda: Sched(when=[XmlDateTime(2001, 10, 26, 21, 32, 52), XmlDate(2001, 10, 26)]),
}
JSONS = {
    "ja": '{"c": {"v": "one", "k": 1}, "n": 5, "q": "{urn:p1}name"}',
    "jb": '{"c": {"v": "bee", "k": null}, "item": [{"v": null, "k": 2}]}',
    "jbadvalue": '{"n": "many"}',
    "jp": '{"value": {"v": "c", "k": 1}, "many": [1, {"v": "x", "k": null}]}',
    "jd": '{"shape": {"id": 3, "r": 1.5}, "ride": {"w": 2, "doors": 4}, "u": 7}',
    "jbad": '{"n": {"x": 1}}',
    "jsyntax": '{"n": ',
    "junknown": '{"zzz": 1}',
    "js1": '{"when": ["2001-10-26", 7]}',
    "js2": '{"when": ["2001-10-26T21:32:52", "2001-10-26"]}',
    "jsbad": '{"when": ["not a date"]}',
}
STRICT = dict(fail_on_unknown_properties=True, fail_on_unknown_attributes=True, fail_on_converter_warnings=True)
LENIENT = dict(fail_on_unknown_properties=False, fail_on_unknown_attributes=False, fail_on_converter_warnings=False)

# operation pool: (name, kind, args)
OPS = [
    ("parse a1 as A (lxml)", "parse", ("lxml", "a1", "A", True)),
    ("parse a2 as A (native)", "parse", ("native", "a2", "A", True)),
    ("parse b1 as B (lxml)", "parse", ("lxml", "b1", "B", True)),
    ("parse b1 as B (native)", "parse", ("native", "b1", "B", True)),
    ("parse d1 as Drawing (lxml)", "parse", ("lxml", "d1", "Drawing", True)),
    ("parse d2 as Drawing (native)", "parse", ("native", "d2", "Drawing", True)),
    ("parse p1 as Pick (lxml)", "parse", ("lxml", "p1", "Pick", True)),
    ("parse p1 as Pick, lenient (lxml)", "parse", ("lxml", "p1", "Pick", False)),
    ("parse rebind as Drawing (native)", "parse", ("native", "rebind", "Drawing", True)),
    ("parse rebind as Drawing (lxml)", "parse", ("lxml", "rebind", "Drawing", True)),
    ("parse malformed as A (native)", "parse", ("native", "bad-syntax", "A", True)),
    ("parse unknown element as A (lxml)", "parse", ("lxml", "bad-unknown", "A", True)),
    ("parse bad value as A, lenient (lxml)", "parse", ("lxml", "bad-value", "A", False)),
    ("parse bad value as A, strict (native)", "parse", ("native", "bad-value", "A", True)),
    ("parse unbound prefix as A (lxml)", "parse", ("lxml", "bad-prefix", "A", True)),
    ("parse a1 as wrong class B (lxml)", "parse", ("lxml", "a1", "B", True)),
    ("parse b1 without class (lxml)", "parse", ("lxml", "b1", None, True)),
    ("parse d1 without class (native)", "parse", ("native", "d1", None, True)),
    ("parse ds as Drawing (lxml)", "parse", ("lxml", "ds", "Drawing", True)),
    ("parse dr as Drawing (native)", "parse", ("native", "dr", "Drawing", True)),
    ("parse rootx1 as Shape (lxml)", "parse", ("lxml", "rootx1", "Shape", True)),
    ("parse rootx2 as Vehicle (lxml)", "parse", ("lxml", "rootx2", "Vehicle", True)),
    ("parse rootx3 as Shape (native)", "parse", ("native", "rootx3", "Shape", True)),
    ("parse rootx4 as Shape (native)", "parse", ("native", "rootx4", "Shape", True)),
    ("parse rootx1 as Shape (native)", "parse", ("native", "rootx1", "Shape", True)),
    ("parse a1 recording prefixes", "parse-nsmap", ("lxml", "a1", "A")),
    ("serialize A", "serialize", ("A", None)),
    ("serialize B", "serialize", ("B", None)),
    ("serialize Drawing", "serialize", ("D", None)),
    ("serialize Pick with prefix map", "serialize", ("P", [["p", "urn:unused"], [None, "urn:s"]])),
    ("serialize B with default namespace", "serialize", ("B", [[None, "urn:b"]])),
    ("json decode ja as A", "json", ("ja", "A", True)),
    ("json decode jb as B", "json", ("jb", "B", True)),
    ("json decode wrong shape as A", "json", ("jbad", "A", True)),
    ("json decode truncated as A", "json", ("jsyntax", "A", True)),
    ("json decode unknown key as A, lenient", "json", ("junknown", "A", False)),
    ("json decode bad value as A, lenient", "json", ("jbadvalue", "A", False)),
    ("json decode Pick, lenient", "json", ("jp", "Pick", False)),
    ("json decode Drawing, lenient", "json", ("jd", "Drawing", False)),
    ("json decode ja without class", "json", ("ja", None, True)),
    ("json encode A", "encode", ("A",)),
    ("json encode Drawing", "encode", ("D",)),
    ("dict decode Pick", "dict", ("P",)),
    ("tree parse d2", "tree", ("d2",)),
    ("import a new model module", "import", ()),
    ("parse pa as PA (lxml)", "parse", ("lxml", "pa", "PA", True)),
    ("parse pb as PB (native)", "parse", ("native", "pb", "PB", True)),
    ("serialize PA", "serialize", ("PA", None)),
    ("serialize PB", "serialize", ("PB", None)),
    ("json decode js1 as Sched", "json", ("js1", "Sched", True)),
    ("json decode js2 as Sched", "json", ("js2", "Sched", True)),
    ("json decode bad date as Sched", "json", ("jsbad", "Sched", True)),
    ("serialize Sched 1", "serialize", ("S1", None)),
    ("serialize Sched 2", "serialize", ("S2", None)),
    ("serialize local model through globalns", "serialize-local", ("L",)),
    ("json encode local model through globalns", "encode-local", ("L",)),
    ("parse rootx5 without class (lxml)", "parse", ("lxml", "rootx5", None, True)),
    ("parse plain-w without class (lxml)", "parse", ("lxml", "plain-w", None, True)),
]
_imported = itertools.count()


class Instances:
    """Either the shared instances or a factory of fresh ones."""

    def __init__(self):
        self.context = XmlContext()
        self.parsers = {(h, s): XmlParser(context=self.context, handler={"lxml": LxmlEventHandler, "native": XmlEventHandler}[h],
                                          config=ParserConfig(**(STRICT if s else LENIENT)))
                        for h in ("lxml", "native") for s in (True, False)}
        self.serializer = XmlSerializer(context=self.context, config=SerializerConfig(xml_declaration=False))
        self.json_parsers = {s: JsonParser(context=self.context, config=ParserConfig(**(STRICT if s else LENIENT))) for s in (True, False)}
        self.json_serializer = JsonSerializer(context=self.context)
        self.serializer_local = XmlSerializer(context=self.context, config=SerializerConfig(xml_declaration=False, globalns=LOCALNS))
        self.json_serializer_local = JsonSerializer(context=self.context, config=SerializerConfig(globalns=LOCALNS))
        self.decoder = DictDecoder(context=self.context, config=ParserConfig(**STRICT))
        self.encoder = DictEncoder(context=self.context)
        self.tree = TreeParser(context=self.context)


def do(op, inst: Instances):
    """Execute one operation; -> ("ok", value) | ("err", exception type name)."""
    name, kind, args = op
    mod = sys.modules[__name__]
    try:
        with warnings.catch_warnings(record=True) as w:
            warnings.simplefilter("always")
            if kind == "parse":
                h, doc, cls, strict = args
                val = inst.parsers[(h, strict)].from_string(DOCS[doc], getattr(mod, cls) if cls else None)
            elif kind == "parse-nsmap":
                h, doc, cls = args
                rec = {}
                obj = inst.parsers[(h, True)].from_string(DOCS[doc], getattr(mod, cls), ns_map=rec)
                val = (obj, sorted((k or "", v) for k, v in rec.items()))
            elif kind == "serialize":
                obj, nsm = args
                val = inst.serializer.render(OBJS[obj](), ns_map={k: v for k, v in nsm} if nsm else None)
            elif kind == "serialize-local":
                val = inst.serializer_local.render(OBJS[args[0]]())
            elif kind == "encode-local":
                val = inst.json_serializer_local.render(OBJS[args[0]]())
            elif kind == "json":
                doc, cls, strict = args
                val = inst.json_parsers[strict].from_string(JSONS[doc], getattr(mod, cls) if cls else None)
            elif kind == "encode":
                val = inst.json_serializer.render(OBJS[args[0]]())
            elif kind == "dict":
                enc = inst.encoder.encode(OBJS[args[0]]())
                val = inst.decoder.decode(json.loads(json.dumps(enc)), type(OBJS[args[0]]()))
            elif kind == "tree":
                val = inst.tree.from_string(DOCS[args[0]])
            elif kind == "import":
                return ("ok", None)
        return ("ok", (val, sorted(x.category.__name__ for x in w)))
    except Exception as e:
        return ("err", type(e).__name__)


def import_new_module():
    """A new module with a class that has the same qualified name as pool class B (changes len(sys.modules))."""
    k = next(_imported)
    name = f"c14_late_{k}"
    mod = types.ModuleType(name)
    src = f'''
from dataclasses import dataclass, field
from typing import Optional
@dataclass
class Late{k}:
    class Meta:
        name = "late{k}"
        namespace = "urn:late"
    z: Optional[int] = field(default=None, metadata={{"type": "Element"}})
'''
    exec(src, mod.__dict__)
    mod.__dict__[f"Late{k}"].__module__ = name
    sys.modules[name] = mod
    return name


def same(a, b):
    if a[0] != b[0]:
        return False
    if a[0] == "err":
        return a[1] == b[1]
    return deep_eq(a[1], b[1])


def run_history(ops_idx, col=None):
    """Apply the operations to shared instances; compare each outcome with fresh instances.  -> failures."""
    shared = Instances()
    fails = []
    loaded = []
    try:
        for step, i in enumerate(ops_idx):
            op = OPS[i]
            if op[1] == "import":
                loaded.append(import_new_module())
                continue
            got = do(op, shared)
            ref = do(op, Instances())
            if not same(got, ref):
                hist = [OPS[j][0] for j in ops_idx[:step + 1]]
                fails.append(Failure(f"history-dependent/{op[1]}/{op[0]}",
                                     f"after {hist[:-1]} the call `{op[0]}` gives {str(got)[:400]} on shared instances but {str(ref)[:400]} on fresh ones",
                                     {"ops": list(ops_idx[:step + 1])}))
                break
    finally:
        for name in loaded:
            sys.modules.pop(name, None)
    return fails


def nontrivial(ops_idx):
    if len(ops_idx) < 2:
        return False
    before = [OPS[i] for i in ops_idx[:-1]]
    failing = any("bad" in str(o[2]) or "wrong" in o[0] or "jsyntax" in str(o[2]) or "junknown" in str(o[2]) or "malformed" in o[0] for o in before)
    models = {str(o[2][2]) if o[1] == "parse" else str(o[2][:1]) for o in before}
    return failing or len(models) >= 2


def execute(case, col):
    ops = case["ops"]
    col.case(tuple(ops), nontrivial(ops), labels=[f"len={min(len(ops), 5)}"] + (["has-import"] if any(OPS[i][1] == "import" for i in ops) else []),
             sample={"history": [OPS[i][0] for i in ops]})
    return run_history(ops, col)


@st.composite
def cases(draw):
    return {"ops": draw(st.lists(st.integers(0, len(OPS) - 1), min_size=2, max_size=30))}


def state_machine_campaign(n, seed, col):
    """Random histories from a Hypothesis rule-based state machine (shared instances live in the machine)."""
    import hypothesis
    from hypothesis import settings, HealthCheck, Phase
    from hypothesis.stateful import RuleBasedStateMachine, rule, run_state_machine_as_test

    class History(RuleBasedStateMachine):
        def __init__(self):
            super().__init__()
            self.shared = Instances()
            self.ops = []
            self.loaded = []
            self.failed = False

        @rule(i=st.integers(0, len(OPS) - 1))
        def call(self, i):
            if self.failed:
                return
            op = OPS[i]
            self.ops.append(i)
            if op[1] == "import":
                self.loaded.append(import_new_module())
                return
            got, ref = do(op, self.shared), do(op, Instances())
            if not same(got, ref):
                self.failed = True
                hist = [OPS[j][0] for j in self.ops]
                col.fail(Failure(f"history-dependent/{op[1]}/{op[0]}",
                                 f"after {hist[:-1]} the call `{op[0]}` gives {str(got)[:400]} on shared instances but {str(ref)[:400]} on fresh ones",
                                 {"ops": list(self.ops)}))

        def teardown(self):
            col.case(tuple(self.ops), nontrivial(self.ops), labels=[f"len={min(len(self.ops), 5)}", "state-machine"],
                     sample={"history": [OPS[i][0] for i in self.ops]})
            for name in self.loaded:
                sys.modules.pop(name, None)

    run_state_machine_as_test(hypothesis.seed(seed)(History), settings=settings(
        max_examples=n, stateful_step_count=30, deadline=None, database=None, suppress_health_check=list(HealthCheck),
        phases=[Phase.generate], report_multiple_bugs=False))
    # minimise recorded failing histories by plain delta debugging (the machine above only collects)
    for sig, f in list(col.failures.items()):
        ops = list(f.case["ops"])
        changed = True
        while changed:
            changed = False
            for k in range(len(ops) - 1):
                cand = ops[:k] + ops[k + 1:]
                if any(x.sig == sig for x in run_history(cand)):
                    ops, changed = cand, True
                    break
        res = [x for x in run_history(ops) if x.sig == sig]
        if res:
            col.failures[sig] = res[0]


def plan(tier, seed):
    n = len(OPS)
    shards = [{"enum": 2, "part": i, "parts": 8} for i in range(8)]
    if tier == "thorough":
        shards += [{"enum": 3, "part": i, "parts": 48} for i in range(48)]
    m, nsh = {"quick": (320, 8), "thorough": (32000, 16)}[tier]
    shards += [{"machine": m // nsh, "seed": seed * 1000 + i} for i in range(nsh)]
    return shards


def run_shard(shard, col):
    if "enum" in shard:
        k = shard["enum"]
        seen = set()
        for idx, ops in enumerate(itertools.product(range(len(OPS)), repeat=k)):
            if idx % shard["parts"] != shard["part"]:
                continue
            for f in execute({"ops": list(ops)}, col):
                col.fail(f)
        if shard["part"] == 0:
            for i in range(len(OPS)):           # length 1
                for f in execute({"ops": [i]}, col):
                    col.fail(f)
        col.exhaustive.append(f"all histories of length <= {k} over the {len(OPS)}-operation pool")
        return
    state_machine_campaign(shard["machine"], shard["seed"], col)


def replay_case(case):
    return list(execute(case, Collector()) or ())
