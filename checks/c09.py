"""C09 - parsing depends only on the XML infoset (DESIGN §C09)."""
import shutil
import tempfile
import warnings
from pathlib import Path

from hypothesis import strategies as st
from lxml import etree

from checks import c01
from vlib import expect as E
from vlib import infoset as I
from vlib import models as M
from vlib import rewrite as RW
from vlib.codec import deep_eq, first_diff
from vlib.core import Failure, exc_sig, hyp_campaign

ID = "C09"
LEVEL = "exploration"
RULE = ("Hypothesis draws a model, an instance (C01's generators), a set of 1-6 rewrite kinds out of "
        f"{RW.KINDS} and a choice tape; the document written by xsdata is re-written by a harness-side XML writer "
        "(vlib/rewrite.py) that keeps the infoset and changes only lexical choices: prefix names, default-namespace usage "
        "(QName-valued content re-encoded consistently), declaration placement, attribute order, whitespace between children "
        "of element-only content, comments and processing instructions (also inside character data), CDATA sections, "
        "decimal/hex character references, encoding + BOM + XML declaration, blanks around non-string values, and moving a "
        "subtree to an XInclude'd file. A self-check asserts with an independent libxml2 parse that original and rewritten "
        "document have the same canonical infoset (modulo the rewrites' declared freedom). Oracle (metamorphic): "
        "parse(rewritten) is structurally equal to parse(original) for both handlers. Non-trivial = at least two different "
        "rewrite kinds actually applied; distinct by fingerprint of (spec, instance, kinds, tape).")
ASSUMPTIONS = [
    "which values are QNames / non-string / element-only is taken from the ModelSpec through vlib/expect.py (never from xsdata metadata)",
    "datetime/date values with strftime formats are treated as strings (no whitespace collapse is promised for custom formats)",
    "xsi:nil is not padded or re-spelled (xsdata compares it with the literal 'true'; recorded as an observation in DESIGN.md)",
]

from xsdata.formats.dataclass.context import XmlContext  # noqa: E402
from xsdata.formats.dataclass.parsers import XmlParser  # noqa: E402
from xsdata.formats.dataclass.parsers.config import ParserConfig  # noqa: E402
from xsdata.formats.dataclass.serializers import XmlSerializer  # noqa: E402
from xsdata.formats.dataclass.serializers.config import SerializerConfig  # noqa: E402

OPTS = M.Opts(cr=True)


@st.composite
def cases(draw):
    mi = draw(M.model_and_instance(OPTS))
    mi["kinds"] = draw(st.lists(st.sampled_from(RW.KINDS), min_size=2, max_size=8, unique=True))
    mi["tape"] = draw(st.lists(st.integers(0, 11), min_size=8, max_size=48))
    mi["ns_map"] = draw(c01.ns_maps(M.model_uris(mi["spec"], mi["inst"])))
    return mi


def execute(case, col):
    try:
        model = M.Model(case["spec"])
    except Exception as e:
        raise RuntimeError(f"generator produced an invalid model: {e!r}\n{M.source(case['spec'], 'x')}")
    scratch = tempfile.mkdtemp(prefix="c09_") if "xinclude" in case["kinds"] else None
    try:
        return _execute(case, col, model, scratch)
    finally:
        model.dispose()
        if scratch:
            shutil.rmtree(scratch, ignore_errors=True)


def _canon_for_selfcheck(root, spec_free=True):
    return I.canon(root, strip_ws=True, resolve=True)


def _execute(case, col, model, scratch):
    spec = case["spec"]
    obj = model.decode(case["inst"])
    ns_map = {k: v for k, v in case["ns_map"]} if case["ns_map"] else None
    if ns_map and (None in ns_map or "" in ns_map) and (
            M.has_plain_qname([case["inst"], spec["enums"], spec["classes"]]) or M.has_plain_type(spec)):
        ns_map.pop(None, None)
        ns_map.pop("", None)
    doc = XmlSerializer(context=XmlContext(), config=SerializerConfig(xml_declaration=False)).render(obj, ns_map=ns_map)
    pcfg = ParserConfig(fail_on_unknown_properties=True, fail_on_unknown_attributes=True, fail_on_converter_warnings=True)

    def parse(handler, data=None, path=None):
        p = XmlParser(context=XmlContext(), handler=c01.HANDLERS[handler],
                      config=ParserConfig(fail_on_unknown_properties=True, fail_on_unknown_attributes=True,
                                          fail_on_converter_warnings=True, process_xinclude=path is not None))
        with warnings.catch_warnings():
            warnings.simplefilter("error")
            if path is not None:
                return p.parse(str(path), type(obj))
            return p.from_bytes(data, type(obj))
    try:
        base = parse("lxml", doc.encode("utf-8"))
    except Exception as e:
        # C01 territory (xsdata rejects its own output); not a rewrite problem
        col.case((spec, case["inst"]), False, labels=["baseline-rejected"])
        return []
    root = I.parse_strict(doc)
    exp = E.Reader(spec, False).document(case["inst"])
    try:
        tree = RW.annotate(spec, exp, root)
    except ValueError:
        col.case((spec, case["inst"]), False, labels=["not-annotatable"])
        return []
    original_prefixes = {}
    for el in root.iter("*"):
        for p, u in el.nsmap.items():
            if p:
                original_prefixes.setdefault(u, p)
    rw = RW.Rewriter(case["tape"], case["kinds"], scratch)
    data = rw.document(tree, original_prefixes)
    applied = sorted(rw.applied)
    labels = [f"rw:{k}" for k in applied] + [f"applied={min(len(applied), 4)}"]
    path = None
    if rw.files:
        path = Path(scratch) / "main.xml"
        path.write_bytes(data)
    # self-check of the rewriter with an independent parser: same infoset
    try:
        if path is not None:
            t2 = etree.parse(str(path), I.STRICT)
            t2.xinclude()
            new_root = t2.getroot()
        else:
            new_root = etree.fromstring(data, I.STRICT)
    except etree.XMLSyntaxError as e:
        raise RuntimeError(f"rewriter produced a malformed document: {e}\n{data[:800]!r}")
    for el in new_root.iter("*"):
        el.attrib.pop("{http://www.w3.org/XML/1998/namespace}base", None)
    try:
        d = RW.same(tree, RW.annotate(spec, exp, new_root))
    except (ValueError, StopIteration) as e:
        d = f"structure changed: {e!r}"
    if d:
        raise RuntimeError(f"rewriter changed the infoset: {d}\noriginal: {doc}\nrewritten: {data[:1500]!r}")
    col.case((spec, case["inst"], case["kinds"], case["tape"]), len(applied) >= 2, labels=labels,
             sample={"model": model.src.split("import upper, suffix, cap\n")[-1], "original": doc[:1500],
                     "rewritten": data.decode("latin-1")[:1500] if b"\x00" not in data[:4] else repr(data[:600]), "applied": applied})
    fails = []
    qname_content = _has_qname_content(tree)
    for h in ("lxml", "native"):
        if h == "native" and path is not None and qname_content:
            # with process_xinclude the pure python handler goes through an ElementTree tree, which does not keep
            # prefixes (documented in docs/data_binding/xml_parsing.md): QName-valued content cannot be resolved
            col.label("native-xinclude-skipped:qname-content")
            continue
        try:
            got = parse(h, data, path)
        except Exception as e:
            fails.append(Failure(exc_sig(f"rewritten-rejected/{h}", e),
                                 f"{h} handler: {type(e).__name__}: {e}\napplied: {applied}\noriginal:  {doc}\nrewritten: {data[:2000]!r}\nmodel:\n{model.src}", case))
            continue
        if not deep_eq(got, base):
            fails.append(Failure(f"rewritten-differs/{h}/" + c01.classify(case, base, got),
                                 f"{h} handler: {first_diff(base, got)}\napplied: {applied}\noriginal:  {doc}\nrewritten: {data[:2000]!r}\nmodel:\n{model.src}", case))
    return fails


def _has_qname_content(n):
    for _ns, _l, v in n.attrs:
        if v.qnames is not None:
            return True
    for i in n.items:
        if isinstance(i, RW.Node):
            if _has_qname_content(i):
                return True
        elif i.qnames is not None:
            return True
    return False


def plan(tier, seed):
    n, nsh = {"quick": (8000, 16), "thorough": (320000, 64)}[tier]
    return [{"n": n // nsh, "seed": seed * 1000 + i} for i in range(nsh)]


def run_shard(shard, col):
    hyp_campaign(cases(), execute, shard["n"], shard["seed"], col)


def replay_case(case):
    from vlib.core import Collector
    return list(execute(case, Collector()) or ())
