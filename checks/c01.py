"""C01 - XML round-trip (DESIGN §C01)."""
import warnings

from hypothesis import strategies as st

from vlib import models as M
from vlib.codec import deep_eq, first_diff
from vlib.core import Failure, exc_sig, hyp_campaign

ID = "C01"
LEVEL = "exploration"
RULE = ("Hypothesis draws a binding model (ModelSpec: classes with Attribute/Attributes/Text/Element/Elements/Wildcard/"
        "Ignore fields, tokens, nillable, sequence groups, wrappers, formats, unions, enums, inheritance with xsi:type, "
        "class/field/module namespaces, name generators, frozen/tuple, slots, kw_only, eq=False), an instance of it and a "
        "configuration (writer x handler x indent x xml_declaration x ignore_default_attributes x encoding x user prefix map "
        "x shared/separate context); oracle: parse(serialize(x)) is structurally equal to x under the strictest parser "
        "settings (fail_on_unknown_properties/attributes/converter_warnings, warnings are errors). Non-trivial = the "
        "instance populates >= 2 field kinds or nests >= 2 levels; distinct by fingerprint of (spec, instance, config).")
ASSUMPTIONS = [
    "model generator stays inside the documented fragment (DESIGN §3.2 soundness list): e.g. no '' in optional Text fields, "
    "union values canonical under the documented type priority, token items without whitespace",
    "mixed-content models are serialized without indentation (pretty-printing mixed content changes text by design)",
]

from xsdata.formats.dataclass.context import XmlContext  # noqa: E402
from xsdata.formats.dataclass.parsers import XmlParser  # noqa: E402
from xsdata.formats.dataclass.parsers.config import ParserConfig  # noqa: E402
from xsdata.formats.dataclass.parsers.handlers import LxmlEventHandler, XmlEventHandler  # noqa: E402
from xsdata.formats.dataclass.serializers import XmlSerializer  # noqa: E402
from xsdata.formats.dataclass.serializers.config import SerializerConfig  # noqa: E402
from xsdata.formats.dataclass.serializers.writers import LxmlEventWriter, XmlEventWriter  # noqa: E402

WRITERS = {"lxml": LxmlEventWriter, "native": XmlEventWriter}
HANDLERS = {"lxml": LxmlEventHandler, "native": XmlEventHandler}

def ns_maps(uris):
    """User prefix maps aimed at the model: default namespace / named prefixes for namespaces the model uses,
    prefixes that collide with generated ones, well-known prefixes bound elsewhere, unused entries."""
    pool = list(uris) + ["urn:unused", "http://www.w3.org/2001/XMLSchema-instance"]
    entry = st.tuples(st.sampled_from([None, None, "", "p", "q", "ns0", "ns1", "ns2", "xsi", "xs"]), st.sampled_from(pool))
    return st.one_of(st.none(), st.lists(entry, min_size=1, max_size=3, unique_by=lambda t: t[0] or None))


@st.composite
def configs(draw, uris=()):
    return {
        "writer": draw(st.sampled_from(["lxml", "native"])),
        "handler": draw(st.sampled_from(["lxml", "native"])),
        "indent": draw(st.sampled_from([None, None, "  ", "\t"])),
        "xml_declaration": draw(st.booleans()),
        "ignore_default_attributes": draw(st.booleans()),
        "encoding": draw(st.sampled_from(["UTF-8", "UTF-8", "UTF-16", "ISO-8859-1"])),
        "ns_map": draw(ns_maps(uris)),
        "shared_context": draw(st.booleans()),
        "bytes": draw(st.booleans()),
    }


@st.composite
def cases(draw):
    mi = draw(M.model_and_instance(OPTS))
    mi["cfg"] = draw(configs(M.model_uris(mi["spec"], mi["inst"])))
    return mi


OPTS = M.Opts(cr=True, anon_container=True)


def has_mixed(spec):
    return any(f.get("mixed") for c in spec["classes"] for f in c["fields"])


def has_wildcard(spec):
    return any(f["kind"] == "Wildcard" for c in spec["classes"] for f in c["fields"])


def execute(case, col):
    spec, cfg = case["spec"], case["cfg"]
    try:
        model = M.Model(spec)
    except Exception as e:
        raise RuntimeError(f"generator produced an invalid model: {e!r}\n{M.source(spec, 'x')}")
    try:
        return _execute(case, col, model)
    finally:
        model.dispose()


def _execute(case, col, model):
    spec, cfg = case["spec"], case["cfg"]
    obj = model.decode(case["inst"])
    kinds, depth, nodes = M.instance_stats(case["inst"], spec)
    indent = cfg["indent"]
    if indent and (has_mixed(spec) or has_wildcard(spec)):
        indent = None
    labels = [f"writer:{cfg['writer']}", f"handler:{cfg['handler']}", "indent" if indent else "no-indent",
              "ns_map" if cfg["ns_map"] else "no-ns_map"] + [f"kind:{k}" for k in kinds]
    if cfg["ns_map"]:
        used = set(M.model_uris(case["spec"], case["inst"]))
        if any(not p and u in used for p, u in cfg["ns_map"]):
            labels.append("ns_map:default-namespace-used-by-model")
        if any(p and u in used for p, u in cfg["ns_map"]):
            labels.append("ns_map:prefix-for-model-namespace")
        if any(p in ("ns0", "ns1", "ns2", "xsi", "xs") for p, u in cfg["ns_map"]):
            labels.append("ns_map:collides-with-generated-prefix")
    if any(c["base"] is not None for c in spec["classes"]):
        labels.append("inheritance")
    sample = None
    ctx = XmlContext()
    # a document in another encoding than UTF-8 needs its XML declaration to be readable at all
    decl = cfg["xml_declaration"] or cfg["encoding"] != "UTF-8"
    ser_cfg = SerializerConfig(indent=indent, xml_declaration=decl, encoding=cfg["encoding"],
                               ignore_default_attributes=cfg["ignore_default_attributes"])
    ns_map = {k: v for k, v in cfg["ns_map"]} if cfg["ns_map"] else None
    if ns_map and (None in ns_map or "" in ns_map) and not case.get("no_guards") and (
            M.has_plain_qname([case["inst"], case["spec"]["enums"], case["spec"]["classes"]]) or M.has_plain_type(case["spec"])):
        # a QName without a namespace cannot be written under a default namespace (recorded finding, C03)
        ns_map.pop(None, None)
        ns_map.pop("", None)
        col.label("default-ns-dropped-for-plain-qname")
    serializer = XmlSerializer(context=ctx, config=ser_cfg, writer=WRITERS[cfg["writer"]])
    try:
        xml = serializer.render(obj, ns_map=ns_map)
    except Exception as e:
        col.case((case["spec"], case["inst"], cfg), len(kinds) >= 2 or depth >= 2, labels=labels)
        return [Failure(exc_sig("serialize-raise", e), f"{type(e).__name__}: {e}\nobject: {obj!r}\nmodel:\n{model.src}", case)]
    col.case((case["spec"], case["inst"], cfg), len(kinds) >= 2 or depth >= 2, labels=labels,
             sample={"model": model.src.split("from vlib.namegen import upper, suffix, cap\n")[-1], "instance": repr(obj), "config": cfg, "xml": xml})
    pctx = ctx if cfg["shared_context"] else XmlContext()
    parser = XmlParser(context=pctx, handler=HANDLERS[cfg["handler"]],
                       config=ParserConfig(fail_on_unknown_properties=True, fail_on_unknown_attributes=True, fail_on_converter_warnings=True))
    try:
        with warnings.catch_warnings():
            warnings.simplefilter("error")
            if cfg["bytes"] or cfg["encoding"] != "UTF-8":
                try:
                    data = xml.encode(cfg["encoding"])
                except UnicodeEncodeError:
                    # names/text outside the target charset: the user would pick another encoding
                    col.label("encoding-not-applicable")
                    return []
                back = parser.from_bytes(data, type(obj))
            else:
                back = parser.from_string(xml, type(obj))
    except Exception as e:
        return [Failure(exc_sig("parse-raise", e), f"xsdata rejects its own output: {type(e).__name__}: {e}\nxml: {xml}\nobject: {obj!r}\nmodel:\n{model.src}", case)]
    # with ignore_default_attributes an attribute that *equals* its default (python equality: 24:00:00 == 24:00:00Z, 0.0 == -0.0)
    # is left out and comes back as the default: equal under the values' own `==`, which is what the option documents
    if not deep_eq(back, obj, own_eq=bool(cfg.get("ignore_default_attributes"))):
        return [Failure("roundtrip-differs/" + classify(case, obj, back), f"{first_diff(obj, back)}\nxml: {xml}\nmodel:\n{model.src}", case)]
    return []


def classify(case, obj, back):
    """A coarse root-cause key for unequal objects: kind of the innermost differing field + how the value differs."""
    import dataclasses
    spec = case["spec"]

    def walk(a, b, kind):
        if type(a) is not type(b):
            return f"{kind}/type:{type(a).__name__ if not dataclasses.is_dataclass(a) else 'model'}->{type(b).__name__ if not dataclasses.is_dataclass(b) else 'model'}"
        if dataclasses.is_dataclass(a):
            cid = getattr(type(a), "__vid__", None)
            fs = {f["py"]: f for f in M.all_fields(spec, cid)} if cid is not None else {}
            for f in dataclasses.fields(a):
                x, y = getattr(a, f.name), getattr(b, f.name)
                if not deep_eq(x, y):
                    return walk(x, y, fs.get(f.name, {}).get("kind", type(a).__name__))
        if isinstance(a, (list, tuple)) and not hasattr(a, "_fields"):
            if len(a) != len(b):
                return f"{kind}/len"
            for x, y in zip(a, b):
                if not deep_eq(x, y):
                    return walk(x, y, kind)
        if isinstance(a, dict):
            return f"{kind}/dict"
        if isinstance(a, str):
            if a.replace("\r\n", "\n").replace("\r", "\n") == b:
                return f"{kind}/str-cr"
            if a.strip() == b.strip():
                return f"{kind}/str-ws"
            return f"{kind}/str"
        return f"{kind}/{type(a).__name__}"
    return walk(obj, back, "root")


def plan(tier, seed):
    n, nsh = {"quick": (12000, 16), "thorough": (480000, 64)}[tier]
    return [{"n": n // nsh, "seed": seed * 1000 + i} for i in range(nsh)]


def run_shard(shard, col):
    hyp_campaign(cases(), execute, shard["n"], shard["seed"], col)


def replay_case(case):
    from vlib.core import Collector
    return list(execute(case, Collector()) or ())
