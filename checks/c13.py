"""C13 - models generated from sample documents accept those documents (DESIGN §C13)."""
import json
import warnings

from hypothesis import assume, strategies as st
from lxml import etree

from vlib import codegen as G
from vlib import infoset as I
from vlib import schemas as S
from vlib.core import Collector, Failure, exc_sig, hyp_campaign

ID = "C13"
LEVEL = "exploration"
RULE = ("XML family: Hypothesis draws a hidden regular model (a SchemaSpec in which every element name has one declaration: nested "
        "sequence/choice/all groups with occurrence ranges, attributes, qualified and unqualified forms, nillable, mixed and simple "
        "content, recursion, the inferable builtin types), builds 1-4 valid instance documents with canonical value spellings, then "
        "discards the model. JSON family: a hidden object shape (nested objects, arrays of scalars / objects, optional keys, nulls, empty "
        "arrays, every JSON scalar type) and 1-3 documents of it. Classes are generated from the documents alone. Oracles: generation "
        "succeeds and imports; every sample parses into the generated root class with fail_on_unknown_properties / "
        "fail_on_unknown_attributes / fail_on_converter_warnings on and warnings as errors; serializing the object reproduces the "
        "sample - XML: equal canonical infoset (prefix- and whitespace-insensitive, element order kept where the model has no repeated "
        "group), JSON: equal after dropping nulls and ignoring key order. Non-trivial = the sample set has >= 8 element nodes (XML) / "
        ">= 6 values (JSON) and >= 3 distinct names; distinct by fingerprint of (samples, options).")
ASSUMPTIONS = [
    "code generation runs through stand-ins for click/jinja2/toposort and without ruff (DESIGN §1.1)",
    "canonical spellings = fixed points of the documented converters (vlib/schemas.CANONICAL); an independent strict libxml2 parse "
    "supplies the canonical infoset",
]

from xsdata.formats.dataclass.context import XmlContext  # noqa: E402
from xsdata.formats.dataclass.parsers import JsonParser, XmlParser  # noqa: E402
from xsdata.formats.dataclass.parsers.config import ParserConfig  # noqa: E402
from xsdata.formats.dataclass.serializers import JsonSerializer, XmlSerializer  # noqa: E402
from xsdata.formats.dataclass.serializers.config import SerializerConfig  # noqa: E402

NAMES = [f"{n}{s}" for s in ("", "Info", "List", "2") for n in S.PLAIN_NAMES]
# nillable stays off: an element that is nil in one sample and has a value in another is generated as `None | <empty class> | value`
# and the value is lost (recorded finding xml-nil-in-one-sample-value-in-another)
XOPTS = S.Opts(global_names=True, name_pool=NAMES, builtins=sorted(S.CANONICAL), simple_types=False, extension=False, wildcards=False,
               defaults=False, fixed=False, anon_root=True, mixed=True, mixed_odds=5, nillable=False, recursion=False)
STRICT = dict(fail_on_unknown_properties=True, fail_on_unknown_attributes=True, fail_on_converter_warnings=True)


@st.composite
def gen_options(draw):
    return {"structure_style": draw(st.sampled_from(["filenames", "clusters", "single-package"])), "compound_fields.enabled": draw(st.booleans()),
            "unnest_classes": draw(st.booleans()), "format.frozen": draw(st.booleans()), "format.slots": draw(st.booleans()),
            "generic_collections": False}


@st.composite
def xml_cases(draw):
    spec = draw(S.schema_specs(XOPTS))
    # an element without child elements shows its attributes in every sample: when an attribute is missing from some samples the
    # element is simple here and complex there and the generated union / required field rejects the samples (recorded findings)
    for t in S.all_types(spec) + [e["type"]["anon"] for t0 in S.all_types(spec) if t0["k"] == "complex" for e in S.local_elements(t0) if "anon" in e["type"]]:
        if t["k"] == "complex" and not t.get("content"):
            for a in t["attrs"]:
                a["use"] = "required"
    # mixed content keeps at most one child element per inferred value type (recorded finding xml-mixed-content-children-of-one-type)
    family = {"int": "int", "integer": "int", "gYear": "int", "decimal": "float", "double": "float"}
    for t in S.all_types(spec) + [e["type"]["anon"] for t0 in S.all_types(spec) if t0["k"] == "complex" for e in S.local_elements(t0) if "anon" in e["type"]]:
        if t["k"] == "complex" and t.get("mixed"):
            def kind_of(e):
                b = e["type"].get("b")
                ct = e["type"].get("anon") or spec["types"].get(e["type"].get("t"))
                if b is None and ct is not None and ct["k"] == "complex" and ct.get("simple"):
                    b = ct["simple"]            # text of a simple-content child is inferred like a plain value
                return family.get(b, b or id(e))
            kinds = [kind_of(e) for e in S.local_elements({"content": t["content"]})] if t.get("content") else []
            if len(set(kinds)) != len(kinds):
                t["mixed"] = False
    docs = []
    for _ in range(draw(st.integers(1, 4))):
        root = S.InstanceGen(draw, spec, canonical=True).document()
        etree.cleanup_namespaces(root)
        docs.append(etree.tostring(root, encoding="unicode"))
    # an element that has child elements in one place always has some (recorded findings: empty / text-only / attribute-only elsewhere): such an element is a text field here and a
    # class there, and its children come out required (recorded finding xml-element-empty-in-some-samples)
    kids, attrs_only, text_only, bare = set(), set(), set(), set()
    for d in docs:
        for el in etree.fromstring(d.encode()).iter():
            (kids if len(el) else attrs_only if el.attrib else text_only if (el.text or "").strip() else bare).add(el.tag)
    assume(not (kids & (attrs_only | text_only | bare)) and not (attrs_only & (text_only | bare)))
    # element order is compared for a single sample, or when the model leaves the greedy sample-by-sample merge of field orders no
    # choice (recorded finding xml-field-order-merged-greedily otherwise)
    ordered = not repeated_groups(spec) and (len(docs) == 1 or order_reproducible(spec))
    return {"family": "xml", "docs": docs, "hidden": S.render_xsd(spec), "ordered": ordered, "options": draw(gen_options())}


def order_reproducible(spec):
    """Every element is required and occurs once; the only alternatives are choices between sequences of such elements."""
    ok = [True]

    def walk(p, in_choice=False):
        if p["k"] == "element":
            if p.get("min", 1) != 1 or p.get("max", 1) != 1:
                ok[0] = False
            t = p["type"].get("anon")
            if t and t["k"] == "complex":
                if t.get("mixed"):
                    ok[0] = False
                if t.get("content"):
                    walk(t["content"])
            return
        if p["k"] not in ("sequence", "choice") or p.get("min", 1) != 1 or p.get("max", 1) != 1:
            ok[0] = False
            return
        if p["k"] == "choice" and not all(i["k"] == "sequence" for i in p["items"]):
            ok[0] = False
        for it in p["items"]:
            walk(it)
    for t in S.all_types(spec):
        if t["k"] == "complex":
            if t.get("mixed"):
                ok[0] = False
            if t.get("content"):
                walk(t["content"])
    return ok[0]


def repeated_groups(spec):
    found = [False]

    def walk(p, under_repeat=False):
        if p["k"] == "any":
            return
        if p["k"] == "element":
            if p.get("max", 1) != 1:
                found[0] = True         # two repeated siblings are written interleaved whatever the samples show (recorded finding)
            t = p["type"].get("anon")
            if t and t["k"] == "complex" and t.get("content"):
                walk(t["content"])
            return
        # (a choice that does not repeat keeps the order of the branch a sample uses; xs:all allows any order and repeated groups
        # are regrouped)
        if p.get("max", 1) != 1 or p["k"] == "all":
            found[0] = True
        for it in p["items"]:
            walk(it)
    for t in S.all_types(spec):
        if t["k"] == "complex" and t.get("content"):
            if t.get("mixed"):
                found[0] = True
            walk(t["content"])
    return found[0]


JKEYS = ["id", "name", "items", "price", "active", "tags", "meta", "owner", "count", "notes", "address", "lines"]
SCALARS = {"int": [0, 1, -5, 12345678901], "float": [1.5, -0.25, 1e-07, 1.0, 0.0], "bool": [True, False], "str": ["", "abc", "x y", "é", "007", "+2", "1.", "1e3", "TRUE"],
           "date": ["2001-10-26"], "datetime": ["2001-10-26T21:32:52"]}


@st.composite
def json_shape(draw, depth=0, pool=None):
    pool = pool if pool is not None else list(JKEYS)
    keys = draw(st.lists(st.sampled_from(pool), min_size=1, max_size=4, unique=True))
    for k in keys:
        pool.remove(k)          # one key, one shape (regular documents)
    shape = {}
    for k in keys:
        kind = draw(st.sampled_from(["scalar", "scalar", "array-scalar", "object", "array-object"] if depth < 2 and pool else ["scalar", "array-scalar"]))
        if kind in ("scalar", "array-scalar"):
            shape[k] = {"kind": kind, "type": draw(st.sampled_from(sorted(SCALARS))), "optional": draw(st.booleans())}
        else:
            shape[k] = {"kind": kind, "shape": draw(json_shape(depth + 1, pool)), "optional": draw(st.booleans())}
    return shape


@st.composite
def json_doc(draw, shape, full=False):
    out = {}
    for k, s in shape.items():
        arrayish = s["kind"].startswith("array")
        if s["optional"] and not full and not arrayish:
            # (an absent array key comes back as []: recorded finding, so array keys are always present, possibly empty)
            c = draw(st.integers(0, 3))
            if c == 0:
                continue
            if c == 1:
                out[k] = None
                continue
        lo = 1 if full or not s["optional"] else 0
        if s["kind"] == "scalar":
            out[k] = draw(st.sampled_from(SCALARS[s["type"]]))
        elif s["kind"] == "array-scalar":
            out[k] = draw(st.lists(st.sampled_from(SCALARS[s["type"]]), min_size=lo, max_size=3))
        elif s["kind"] == "object":
            out[k] = draw(json_doc(s["shape"], full))
        else:
            out[k] = [draw(json_doc(s["shape"], full)) for _ in range(draw(st.integers(lo, 3)))]
    return out


@st.composite
def json_cases(draw):
    shape = draw(json_shape())
    # the first document shows every key with a value (a key that only ever holds null / [] gives the generator nothing to infer: recorded finding)
    docs = [draw(json_doc(shape, full=True))] + [draw(json_doc(shape)) for _ in range(draw(st.integers(0, 2)))]
    return {"family": "json", "docs": [json.dumps(d, ensure_ascii=False) for d in docs], "hidden": json.dumps(shape), "options": draw(gen_options())}


def drop_nulls(v):
    if isinstance(v, dict):
        return {k: drop_nulls(x) for k, x in v.items() if x is not None}
    if isinstance(v, list):
        return [drop_nulls(x) for x in v]
    return v


def count_values(v):
    if isinstance(v, dict):
        return sum(count_values(x) for x in v.values())
    if isinstance(v, list):
        return sum(count_values(x) for x in v) + 1
    return 1


def find_class(ws, pkg, ctx, qname=None, name=None):
    for cls in ws.classes(pkg):
        if "." in cls.__qualname__:
            continue
        try:
            meta = ctx.build(cls)
        except Exception:
            continue
        if (qname and meta.qname == qname) or (name and cls.__name__ == name):
            return cls
    return None


def execute(case, col):
    fam, opts = case["family"], case["options"]
    docs = case["docs"]
    shown = "\n".join(docs)
    if fam == "xml":
        roots = [etree.fromstring(d.encode()) for d in docs]
        nodes = sum(1 for r in roots for _ in r.iter())
        names = {etree.QName(e).localname for r in roots for e in r.iter()}
        nontrivial = nodes >= 8 and len(names) >= 3
        sources = {f"sample{i}.xml": d for i, d in enumerate(docs)}
    else:
        values = [json.loads(d) for d in docs]
        nontrivial = sum(count_values(v) for v in values) >= 6
        sources = {f"sample{i}.json": d for i, d in enumerate(docs)}
    col.case((fam, docs, sorted(opts.items())), nontrivial, labels=[f"family:{fam}", f"samples:{len(docs)}", "compound" if opts["compound_fields.enabled"] else "no-compound"] +
             (["ordered-fragment" if case.get("ordered") else "regrouping-allowed"] if fam == "xml" else []),
             sample={"family": fam, "samples": [d[:1200] for d in docs], "options": opts, "hidden_model": case["hidden"][:1500]})
    tail = f"\noptions: {opts}\nsamples:\n{shown}\nhidden model:\n{case['hidden']}"
    with G.Workspace() as ws:
        try:
            pkg = ws.generate(sources, opts, package=ws.unique_package("c13") + ".gen")
            ws.import_all(pkg)
            ctx = XmlContext()
        except Exception as e:
            return [Failure(exc_sig(f"{fam}/generate-or-import", e), f"{type(e).__name__}: {e}{tail}", case)]
        if fam == "xml":
            rootcls = find_class(ws, pkg, ctx, qname=roots[0].tag)
            if rootcls is None:
                return [Failure("xml/no-root-class", f"no generated class is bound to {roots[0].tag}{tail}", case)]
            for d, r in zip(docs, roots):
                try:
                    with warnings.catch_warnings():
                        warnings.simplefilter("error")
                        obj = XmlParser(context=ctx, config=ParserConfig(**STRICT)).from_string(d, rootcls)
                except Exception as e:
                    return [Failure(exc_sig("xml/sample-rejected", e), f"{type(e).__name__}: {e}\nsample: {d}{tail}", case)]
                try:
                    out = XmlSerializer(context=ctx, config=SerializerConfig(xml_declaration=False)).render(obj)
                    a = I.canon(I.parse_strict(d.encode()), strip_ws=True, unordered=not case.get("ordered"))
                    b = I.canon(I.parse_strict(out.encode()), strip_ws=True, unordered=not case.get("ordered"))
                except Exception as e:
                    return [Failure(exc_sig("xml/serialize-raise", e), f"{type(e).__name__}: {e}\nsample: {d}{tail}", case)]
                if a != b:
                    return [Failure("xml/sample-not-reproduced", f"{I.diff(a, b)}\nsample: {d}\noutput: {out}{tail}", case)]
        else:
            rootcls = None
            for cls in ws.classes(pkg):
                if "." not in cls.__qualname__ and cls.__module__.endswith((".sample0", ".gen")) and rootcls is None:
                    rootcls = cls
            names_top = [c for c in ws.classes(pkg) if "." not in c.__qualname__]
            # the root class is named after the package / first source: take the class no other class refers to
            rootcls = root_of(names_top) or rootcls
            if rootcls is None:
                return [Failure("json/no-root-class", f"no root class{tail}", case)]
            for d in docs:
                try:
                    with warnings.catch_warnings():
                        warnings.simplefilter("error")
                        obj = JsonParser(context=ctx, config=ParserConfig(**STRICT)).from_string(d, rootcls)
                except Exception as e:
                    return [Failure(exc_sig("json/sample-rejected", e), f"{type(e).__name__}: {e}\nsample: {d}\nroot class: {rootcls.__name__}{tail}", case)]
                try:
                    out = JsonSerializer(context=ctx).render(obj)
                except Exception as e:
                    return [Failure(exc_sig("json/serialize-raise", e), f"{type(e).__name__}: {e}\nsample: {d}{tail}", case)]
                if drop_nulls(json.loads(out)) != drop_nulls(json.loads(d)):
                    return [Failure("json/sample-not-reproduced", f"sample: {d}\noutput: {out}{tail}", case)]
    return []


def root_of(classes):
    import dataclasses
    import typing
    referred = set()
    for c in classes:
        if not dataclasses.is_dataclass(c):
            continue
        try:
            hints = typing.get_type_hints(c)
        except Exception:
            continue
        for h in hints.values():
            for x in _flatten(h):
                if x is not c:
                    referred.add(x)
    roots = [c for c in classes if dataclasses.is_dataclass(c) and c not in referred]
    return roots[0] if len(roots) == 1 else None


def _flatten(h):
    import typing
    args = typing.get_args(h)
    if not args:
        return [h]
    out = []
    for a in args:
        out += _flatten(a)
    return out


def plan(tier, seed):
    n, nsh = {"quick": (4000, 8), "thorough": (80000, 32)}[tier]
    return [{"family": fam, "n": n // (2 * nsh), "seed": seed * 1000 + 10 * i + k} for k, fam in enumerate(("xml", "json")) for i in range(nsh)]


def run_shard(shard, col):
    hyp_campaign(xml_cases() if shard["family"] == "xml" else json_cases(), execute, shard["n"], shard["seed"], col, shrink_budget_s=40, max_shrinks=4)


def replay_case(case):
    return list(execute(case, Collector()) or ())
