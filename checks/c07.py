"""C07 - the code generator always produces importable, bindable code (DESIGN §C07)."""
import ast
import dataclasses
import enum
import json
import warnings

from hypothesis import strategies as st
from lxml import etree

from vlib import codegen as G
from vlib import multixsd as M
from vlib import schemas as S
from vlib.core import Collector, Failure, exc_sig, hyp_campaign

ID = "C07"
LEVEL = "exploration"
RULE = ("Hypothesis draws a source set over a hostile name alphabet (Python keywords and builtins, names of the generated code's own "
        "imports, leading digits/underscores, dots and dashes, non-ASCII letters, names that collide after case conversion, "
        "70-character names; hostile enumeration values) in four families - XML Schemas of the full SchemaSpec fragment, sets of 3-5 "
        "schemas importing each other (type names recurring across namespaces, global elements named like types, Item next to Item1), sets of "
        "1-3 irregular well-formed XML samples, sets of 1-2 irregular JSON samples - and a point of the whole output-option space "
        "(structure style, compound fields incl. forced default name, wrapper fields, unnest, frozen/slots/eq/order/"
        "unsafe_hash/repr, docstring style, naming case and safe prefix for classes/fields/constants/modules/packages, relative "
        "imports, generic collections, line length, header). Oracles: generation ends in success or in xsdata's own CodegenError; "
        "every generated module imports; every generated dataclass yields binding metadata (XmlContext.build) and can be "
        "instantiated; every enumeration has its members; no class body binds a field name twice and no module or class body "
        "binds a class name twice (AST of the generated source). Non-trivial = at least 3 distinct hostile-name classes appear in "
        "the source set and at least 2 classes were generated; distinct by fingerprint of (sources, options).")
ASSUMPTIONS = [
    "code generation runs through stand-ins for click/jinja2/toposort and without ruff (DESIGN §1.1); ruff only re-formats, so "
    "importability does not depend on it",
    "XML Schemas are offered only when libxml2 compiles them (the generator is documented for valid schemas)",
    "'can be instantiated' = the dataclass constructor accepts None for every field without a default",
]

from xsdata.formats.dataclass.context import XmlContext  # noqa: E402

CASES_ = ["originalCase", "pascalCase", "camelCase", "snakeCase", "screamingSnakeCase", "mixedCase", "mixedSnakeCase", "mixedPascalCase"]
STYLES = ["filenames", "namespaces", "clusters", "single-package", "namespace-clusters"]
DOCSTYLES = ["reStructuredText", "NumPy", "Google", "Accessible", "Blank"]
# `type` is left out of the alphabet: the generator's fallback for unusable names is `Type`/`type_...` and collides with it
# (recorded findings fallback-name-collides-with-type, reserved-name-plus-type-child-duplicate-class)
NAMES = [n for n in S.HOSTILE_NAMES if n != "type"]
# named types are called <name>Kind here: <Name>Type is what the generator falls back to for a reserved class name (True, None,
# Any, Meta ...) without checking that the name is free (recorded finding reserved-class-name-fallback-collides-with-named-type)
XOPTS = S.Opts(hostile=True, name_pool=NAMES, type_suffix="Kind", components=True)

KEYWORDISH = {"class", "def", "return", "import", "None", "True", "match", "type", "async", "await", "lambda", "global", "nonlocal", "yield",
              "try", "pass", "del", "in", "is", "not", "or", "and", "if", "else", "for", "while", "from", "as", "assert", "break", "continue",
              "except", "finally", "raise", "with"}
BUILTINISH = {"list", "str", "int", "object", "self", "cls", "id", "len", "print", "property", "super", "isinstance", "field", "Meta", "Any",
              "Optional", "Enum", "QName", "Decimal", "dataclass", "Inner", "Element", "Attribute", "value", "Value", "VALUE"}


def name_classes(names):
    out = set()
    lower = {}
    for n in names:
        if n in KEYWORDISH:
            out.add("keyword")
        if n in BUILTINISH:
            out.add("builtin-or-generated-name")
        if n[:1].isdigit() or n[:1] == "_":
            out.add("leading-digit-or-underscore")
        if any(c in n for c in ".-"):
            out.add("punctuation")
        if any(ord(c) > 127 for c in n):
            out.add("non-ascii")
        if len(n) > 60:
            out.add("very-long")
        if n == "" or n.strip() != n or " " in n:
            out.add("blank-or-spaces")
        key = "".join(c for c in n.lower() if c.isalnum())
        lower.setdefault(key, set()).add(n)
    if any(len(v) > 1 for v in lower.values()):
        out.add("case-collision")
    return out


@st.composite
def options(draw):
    o = {"structure_style": draw(st.sampled_from(STYLES)), "compound_fields.enabled": draw(st.booleans()),
         "wrapper_fields": draw(st.booleans()), "unnest_classes": draw(st.booleans()),
         "docstring_style": draw(st.sampled_from(DOCSTYLES)), "relative_imports": draw(st.booleans()),
         "generic_collections": draw(st.booleans()), "max_line_length": draw(st.sampled_from([40, 60, 79, 120, 200])),
         "include_header": draw(st.booleans())}
    if o["compound_fields.enabled"]:
        o["compound_fields.force_default_name"] = draw(st.booleans())
        o["compound_fields.max_name_parts"] = draw(st.sampled_from([1, 2, 3, 5]))
    eq = draw(st.booleans())
    o["format.eq"] = eq
    o["format.order"] = eq and draw(st.booleans())
    o["format.frozen"] = draw(st.booleans())
    o["format.slots"] = draw(st.booleans())
    o["format.repr"] = draw(st.booleans())
    o["format.unsafe_hash"] = draw(st.booleans())
    if draw(st.booleans()):
        # class names keep an upper-case scheme and field names a lower-case one: with one scheme for both, a field and the inner
        # class of its type share a name by the user's own choice; safe prefixes are letters (a `_` prefix never makes a name safe)
        allowed = {"class_name": ["pascalCase", "mixedPascalCase"], "field_name": ["snakeCase", "camelCase"]}
        for conv in ("class_name", "field_name", "constant_name", "module_name", "package_name"):
            if draw(st.booleans()):
                o[f"conventions.{conv}.case"] = draw(st.sampled_from(allowed.get(conv, CASES_)))
            if draw(st.integers(0, 3)) == 0:
                o[f"conventions.{conv}.safe_prefix"] = draw(st.sampled_from(["x", "v", "safe", "Safe"]))
    return o


XML_NAMES = list(NAMES)


@st.composite
def xml_sample(draw, names, uris, layered=False):
    """An irregular well-formed document: the same name may be a leaf here and a parent there.  `layered`: an element only
    holds elements that come later in `names`, so the generated classes never refer to each other in a cycle."""
    budget = [draw(st.integers(3, 25))]

    def node(depth, after=-1):
        budget[0] -= 1
        pool = names[after + 1:] if layered else names
        nm = draw(st.sampled_from(pool))
        ns = uris[sum(map(ord, nm)) % len(uris)]        # a local name lives in one namespace (recorded finding otherwise)
        el = etree.Element(S.qn(ns, nm), nsmap={f"p{i}": u for i, u in enumerate(uris) if u} if depth == 0 else None)
        for _ in range(draw(st.integers(0, 2))):
            an = draw(st.sampled_from(names))
            el.set(S.qn(draw(st.sampled_from([None, None] + uris)), an), draw(st.sampled_from(["1", "x", "", "true", "2001-01-01", "a b", "1.5"])))
        kids = draw(st.integers(0, 4)) if depth < 4 and not (layered and names.index(nm) == len(names) - 1) else 0
        if kids == 0 or budget[0] <= 0:
            el.text = draw(st.sampled_from([None, "", "1", "abc", "1.5", "true", " x ", "2001-01-01", "é"]))
            return el
        for _ in range(kids):
            if budget[0] <= 0:
                break
            c = node(depth + 1, names.index(nm))
            el.append(c)
        return el
    return etree.tostring(node(0), encoding="unicode")


# (the empty key is a recorded finding: IndexError in split_qname)
JSON_KEYS = NAMES + ["a b", "1", "9lives", "@attr", "#text", "$ref", "a/b", "é中x", "key with spaces", "x" * 70]   # (`__class__` is a recorded finding)


def _slug(n):
    return "".join(c for c in n.lower() if c.isalnum())


@st.composite
def json_sample(draw):
    budget = [draw(st.integers(3, 25))]

    def value(depth):
        budget[0] -= 1
        k = draw(st.integers(0, 9))
        if depth >= 4 or budget[0] <= 0 or k <= 3:
            return draw(st.sampled_from([None, True, 0, 1, -5, 1.5, "", "abc", "1", "2001-01-01", "é"]))
        if k <= 6:
            keys = draw(st.lists(st.sampled_from(JSON_KEYS), min_size=0, max_size=4, unique_by=_slug))     # (case-colliding keys: recorded finding)
            return {key: value(depth + 1) for key in keys}
        return [value(depth + 1) for _ in range(draw(st.integers(0, 3)))]
    keys = draw(st.lists(st.sampled_from(JSON_KEYS), min_size=1, max_size=4, unique_by=_slug))
    doc = {key: value(1) for key in keys}
    return json.dumps(doc if draw(st.integers(0, 4)) else [doc, doc], ensure_ascii=False)


@st.composite
def cases(draw, family):
    opts = draw(options())
    if family == "xsd":
        spec = draw(S.schema_specs(XOPTS))
        return {"family": "xsd", "spec": spec, "options": opts}
    if family == "multi":
        spec = draw(M.multi_specs(type_names=["Item", "item", "Item1", "class", "Class", "None", "NoneType1", "é1x", "foo-bar", "fooBar"],
                                  field_names=["name", "value", "class", "def", "Value", "x1", "with.dot", "fooBar", "foo_bar"]))
        return {"family": "multi", "mspec": spec, "options": opts}
    if family == "xml":
        # element/attribute names of one sample set stay distinct after case conversion, samples hold no mixed content and a local
        # name lives in one namespace: the generator's sample route merges such names into one class and then loses or duplicates
        # classes (recorded findings, known_examples/C07)
        names = draw(st.lists(st.sampled_from(XML_NAMES), min_size=2, max_size=8, unique_by=lambda n: "".join(c for c in n.lower() if c.isalnum())))
        uris = draw(st.sampled_from([[None], ["urn:a"], [None, "urn:a"], ["urn:a", "urn:b"], ["http://example.com/some/long/Namespace-1.0", None],
                                     ["urn:shop:orders", "urn:shop:common:types"], ["http://example.com/a", "http://example.com/a/b/c", "urn:x"]]))
        layered = draw(st.booleans())
        docs = [draw(xml_sample(names, uris, layered)) for _ in range(draw(st.integers(1, 3)))]
        if layered and len(uris) > 1 and draw(st.booleans()):
            # packages of different depth importing from each other
            opts["structure_style"], opts["relative_imports"] = "namespaces", draw(st.integers(0, 3)) != 0
        if not layered and (len(docs) > 1 or len(uris) > 1) and opts["structure_style"] in ("filenames", "namespaces", "namespace-clusters"):
            # classes that refer to each other across the modules of two samples / namespaces are generated without the import (recorded finding)
            opts["structure_style"] = draw(st.sampled_from(["clusters", "single-package"]))
        return {"family": "xml", "docs": docs, "options": opts}
    docs = [draw(json_sample()) for _ in range(draw(st.integers(1, 2)))]
    if len(docs) > 1 and opts["structure_style"] in ("filenames", "namespaces", "namespace-clusters"):
        opts["structure_style"] = draw(st.sampled_from(["clusters", "single-package"]))
    return {"family": "json", "docs": docs, "options": opts}


def source_names(case):
    names = set()
    if case["family"] == "multi":
        for leaf in case["mspec"]["leaves"]:
            names.update(leaf["types"])
            names.update(f for fields in leaf["types"].values() for f, _, _ in fields)
        return names
    if case["family"] == "xsd":
        spec = case["spec"]
        names.update(spec["types"])
        names.update(spec["elements"])
        for t in S.all_types(spec):
            if t["k"] == "complex":
                names.update(e["name"] for e in S.local_elements(t))
                names.update(a["name"] for a in t["attrs"])
            elif t["k"] == "enum":
                names.update(t["values"])
    elif case["family"] == "xml":
        for d in case["docs"]:
            for el in etree.fromstring(d.encode()).iter():
                names.add(etree.QName(el).localname)
                names.update(etree.QName(a).localname for a in el.attrib)
    else:
        def walk(v):
            if isinstance(v, dict):
                for k, x in v.items():
                    names.add(k)
                    walk(x)
            elif isinstance(v, list):
                for x in v:
                    walk(x)
        for d in case["docs"]:
            walk(json.loads(d))
    return names


def duplicate_bindings(path, text):
    """Names bound twice in one class body (fields, inner classes) or twice at module level (classes)."""
    out = []
    tree = ast.parse(text)

    def scope(body, where):
        seen = {}
        for node in body:
            names = []
            if isinstance(node, ast.ClassDef):
                names = [("class", node.name)]
                scope(node.body, f"{where}.{node.name}")
            elif isinstance(node, ast.AnnAssign) and isinstance(node.target, ast.Name):
                names = [("field", node.target.id)]
            elif isinstance(node, ast.Assign) and not where.endswith("<module>"):
                names = [("field", t.id) for t in node.targets if isinstance(t, ast.Name)]     # enumeration members
            for n in names:
                if n in seen:
                    out.append(f"{path}: {where} binds the {n[0]} `{n[1]}` twice (lines {seen[n]} and {node.lineno})")
                seen[n] = node.lineno
    scope(tree.body, "<module>")
    return out


def execute(case, col):
    fam, opts = case["family"], case["options"]
    if fam == "multi":
        sources = M.render(case["mspec"])
        shown = "\n".join(f"--- {n}\n{t}" for n, t in sources.items())
    elif fam == "xsd":
        xsd = S.render_xsd(case["spec"])
        try:
            etree.XMLSchema(etree.fromstring(xsd.encode()))
        except Exception:
            col.reject()
            return []
        sources = {"schema.xsd": xsd}
        shown = xsd
    elif fam == "xml":
        sources = {f"sample{i}.xml": d for i, d in enumerate(case["docs"])}
        shown = "\n".join(case["docs"])
    else:
        sources = {f"sample{i}.json": d for i, d in enumerate(case["docs"])}
        shown = "\n".join(case["docs"])
    classes_of_names = name_classes(source_names(case))
    fails = []
    ngen = 0
    with G.Workspace() as ws:
        outcome = "generated"
        try:
            pkg = ws.generate(sources, opts, package=ws.unique_package("c07") + ".gen")
        except Exception as e:
            if type(e).__name__ == "CodegenError":
                outcome = "declined:" + str(e)[:40]
                pkg = None
            else:
                col.case((fam, sorted(sources.items()), sorted(opts.items())), False, labels=[f"family:{fam}", "outcome:internal-error"])
                return [Failure(exc_sig(f"{fam}/generate-internal-error", e), f"{type(e).__name__}: {e}\noptions: {opts}\nsources:\n{shown}", case)]
        if pkg:
            for f in ws.files(pkg):
                try:
                    fails += [Failure(f"{fam}/duplicate-name", m + f"\noptions: {opts}\nsources:\n{shown}", case)
                              for m in duplicate_bindings(f.name, f.read_text())]
                except SyntaxError as e:
                    fails.append(Failure(f"{fam}/syntax-error", f"{f.name}: {e}\noptions: {opts}\nsources:\n{shown}", case))
            if not fails:
                try:
                    with warnings.catch_warnings():
                        warnings.simplefilter("ignore")
                        mods = ws.import_all(pkg)
                except Exception as e:
                    fails.append(Failure(exc_sig(f"{fam}/import", e), f"{type(e).__name__}: {e}\noptions: {opts}\nsources:\n{shown}", case))
                    mods = {}
                ctx = XmlContext()
                seen = set()
                for mod in mods.values():
                    for obj in vars(mod).values():
                        if not isinstance(obj, type) or id(obj) in seen or not getattr(obj, "__module__", "").startswith(pkg.split(".")[0]):
                            continue
                        stack = [obj]
                        while stack:
                            cls = stack.pop()
                            if id(cls) in seen:
                                continue
                            seen.add(id(cls))
                            stack.extend(v for v in vars(cls).values() if isinstance(v, type) and v.__name__ != "Meta")
                            ngen += 1
                            try:
                                if issubclass(cls, enum.Enum):
                                    list(cls)
                                elif dataclasses.is_dataclass(cls):
                                    ctx.build(cls)
                                    cls(**{f.name: None for f in dataclasses.fields(cls)
                                           if f.init and f.default is dataclasses.MISSING and f.default_factory is dataclasses.MISSING})
                            except Exception as e:
                                fails.append(Failure(exc_sig(f"{fam}/bind-or-instantiate", e),
                                                     f"{cls.__qualname__}: {type(e).__name__}: {e}\noptions: {opts}\nsources:\n{shown}", case))
                                break
                        if fails:
                            break
                    if fails:
                        break
    nontrivial = len(classes_of_names) >= 3 and ngen >= 2
    col.case((fam, sorted(sources.items()), sorted(opts.items())), nontrivial,
             labels=[f"family:{fam}", "outcome:" + outcome.split(":")[0], f"style:{opts['structure_style']}"] + [f"names:{c}" for c in sorted(classes_of_names)] +
                    (["naming-conventions-changed"] if any(k.startswith("conventions.") for k in opts) else []),
             sample={"family": fam, "sources": shown[:2500], "options": opts, "classes_generated": ngen, "outcome": outcome})
    return fails[:1]


def plan(tier, seed):
    n, nsh = {"quick": (1500, 4), "thorough": (30000, 24)}[tier]
    return [{"family": fam, "n": n // (4 * nsh), "seed": seed * 1000 + 10 * i + k} for k, fam in enumerate(("xsd", "xml", "json", "multi")) for i in range(nsh)]


def run_shard(shard, col):
    hyp_campaign(cases(shard["family"]), execute, shard["n"], shard["seed"], col, shrink_budget_s=40, max_shrinks=4)


def replay_case(case):
    return list(execute(case, Collector()) or ())
