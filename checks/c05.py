"""C05 - primitive values <-> XSD lexical forms (DESIGN §C05)."""
import base64
import datetime
import enum
import math
import re
from decimal import Decimal
from fractions import Fraction
from xml.etree.ElementTree import QName

from hypothesis import strategies as st

from vlib import xsdref as X
from vlib.codec import dec, deep_eq, enc
from vlib.core import Failure, exc_sig, fingerprint, hyp_campaign

ID = "C05"
LEVEL = "exploration"
RULE = ("Hypothesis-generated cases in five families: (value) Python values of every documented primitive type "
        "-> converter.serialize must lie in the XSD lexical space (own recogniser + libxml2) and deserialize back "
        "to the same value, and a list / tuple of such values must serialize to the space-separated items' own forms under the same format and prefix map; (lex) lexical forms valid by construction from the XSD grammar (signs, leading zeros, "
        "exponents, INF/NaN, surrounding XML whitespace, base64 with breaks, hex case) -> deserialize must give the "
        "by-construction value (exact via Fraction); (union) such a form x a candidate type list -> result type is the "
        "first in the documented priority order whose lexical space contains it; (enum) enumerations over "
        "str/int/float/Decimal/QName values; (enumctx) one enumeration class over QName or bytes members converted "
        "several times under different prefix maps / formats - the result depends on the call's context only; (bounds) all integers within +-2 of the 2^7..2^64 boundaries enumerated "
        "against libxml2 for the inferred xs datatype. Non-trivial = value not in {0, 1, '', True, False} and lexical "
        "form longer than one character; distinct by (family, type, lexical/value).")
ASSUMPTIONS = [
    "reference lexical/value model vlib/xsdref.py (XSD 1.1 part 2 grammar), cross-checked by libxml2 2.14 where XSD 1.0 = 1.1",
    "libxml2 is not consulted for year 0000, '+INF', non-finite Decimals (not representable in xs:decimal; round trip only)",
    "invalid strings being rejected is not asserted (C05 does not claim it); union cases where an earlier candidate "
    "over-accepts an XSD-invalid string are skipped and counted",
    "datetime/date/time with strftime formats are restricted to years >= 1000 (platform strftime does not zero-pad %Y)",
]

from xsdata.exceptions import ConverterError  # noqa: E402
from xsdata.formats.converter import converter  # noqa: E402
from xsdata.models.datatype import XmlDate, XmlDateTime, XmlDuration, XmlPeriod, XmlTime  # noqa: E402
from xsdata.models.enums import DataType  # noqa: E402

DOC_ORDER = [int, bool, float, Decimal, datetime.datetime, datetime.date, datetime.time, XmlTime, XmlDate,
             XmlDateTime, XmlDuration, XmlPeriod, QName, str]

# xs type name -> (python type, converter kwargs)
PY = {
    "integer": (int, {}), "boolean": (bool, {}), "double": (float, {}), "decimal": (Decimal, {}),
    "hexBinary": (bytes, {"format": "base16"}), "base64Binary": (bytes, {"format": "base64"}),
    "date": (XmlDate, {}), "time": (XmlTime, {}), "dateTime": (XmlDateTime, {}), "duration": (XmlDuration, {}),
    "period": (XmlPeriod, {}), "QName": (QName, {}), "string": (str, {}),
}
TNAME = {int: "integer", bool: "boolean", float: "double", Decimal: "decimal", XmlDate: "date", XmlTime: "time",
         XmlDateTime: "dateTime", XmlDuration: "duration", XmlPeriod: "period", QName: "QName", str: "string"}

NCNAME = st.from_regex(r"[A-Za-z_][A-Za-z0-9_.\-]{0,6}", fullmatch=True).filter(lambda s: "\n" not in s)
URI = st.sampled_from(["urn:a", "urn:b", "http://www.w3.org/2001/XMLSchema", "http://x.y/z#frag", "urn:q:r"])


# ---------------------------------------------------------------------------
# expected value -> comparable with xsdata's result

def value_matches(t, got, exp):
    """Does xsdata's python value `got` equal the reference value `exp` of xs type `t`?"""
    if t == "integer":
        return type(got) is int and got == exp
    if t == "boolean":
        return type(got) is bool and got == exp
    if t == "decimal":
        return isinstance(got, Decimal) and got.is_finite() and Fraction(got) == exp
    if t == "double":
        return type(got) is float and deep_eq(got, exp)
    if t in ("hexBinary", "base64Binary"):
        return isinstance(got, bytes) and bytes(got) == exp
    if t == "date":
        return type(got) is XmlDate and tuple(got) == tuple(exp)
    if t == "time":
        return type(got) is XmlTime and tuple(got) == tuple(exp)
    if t == "dateTime":
        return type(got) is XmlDateTime and tuple(got) == tuple(exp)
    if t == "duration":
        if type(got) is not XmlDuration:
            return False
        neg, Y, M, D, H, Mi, S = exp
        return (got.negative, got.years, got.months, got.days, got.hours, got.minutes) == (neg, Y, M, D, H, Mi) and \
            ((S is None and got.seconds is None) or (S is not None and got.seconds == float(S)))
    if t == "period":
        return type(got) is XmlPeriod and (got.year, got.month, got.day, got.offset) == tuple(exp)
    if t == "QName":
        return isinstance(got, QName) and got.text == exp
    if t == "string":
        return got == exp
    raise KeyError(t)


def enc_exp(t, v):
    if t == "decimal":
        return {"fr": [v.numerator, v.denominator]}
    if t == "double":
        return enc(v)
    if t in ("hexBinary", "base64Binary"):
        return {"b": v.hex()}
    if t == "duration":
        S = v[6]
        return list(v[:6]) + [None if S is None else [S.numerator, S.denominator]]
    if isinstance(v, tuple):
        return list(v)
    return v


def dec_exp(t, d):
    if t == "decimal":
        return Fraction(*d["fr"])
    if t == "double":
        return dec(d)
    if t in ("hexBinary", "base64Binary"):
        return bytes.fromhex(d["b"])
    if t == "duration":
        return tuple(d[:6]) + (None if d[6] is None else Fraction(*d[6]),)
    if isinstance(d, list):
        return tuple(d)
    return d


# ---------------------------------------------------------------------------
# family "lex": valid lexical form -> value

LEX = {
    "integer": X.lex_integer(), "decimal": X.lex_decimal(), "double": X.lex_double(), "boolean": X.lex_boolean,
    "hexBinary": X.lex_hex(), "base64Binary": X.lex_base64(), "date": X.lex_date(), "time": X.lex_time(),
    "dateTime": X.lex_datetime(), "duration": X.lex_duration(),
    "period": X.lex_period().map(lambda t: (t[0], t[1])),
}


@st.composite
def lex_qname(draw):
    local = draw(NCNAME)
    uri = draw(st.one_of(st.none(), URI))
    ns_map = {}
    for _ in range(draw(st.integers(0, 2))):
        ns_map[draw(st.sampled_from(["p", "q", "ns0", "xs"]))] = draw(URI)
    if uri is None:
        return {"s": local, "exp": local, "ns_map": list(ns_map.items())}
    shape = draw(st.sampled_from(["brace", "prefix", "prefix", "default"]))
    if shape == "brace":
        return {"s": "{%s}%s" % (uri, local), "exp": "{%s}%s" % (uri, local), "ns_map": list(ns_map.items())}
    if shape == "default":      # unprefixed QName under a default namespace (key None, as the parsers pass it)
        ns_map[None] = uri
        return {"s": local, "exp": "{%s}%s" % (uri, local), "ns_map": list(ns_map.items())}
    prefix = draw(st.sampled_from(["p", "q", "ns0", "a.b"]))
    ns_map[prefix] = uri
    return {"s": f"{prefix}:{local}", "exp": "{%s}%s" % (uri, local), "ns_map": list(ns_map.items())}


@st.composite
def case_lex(draw):
    t = draw(st.sampled_from(sorted(LEX) + ["QName"]))
    if t == "QName":
        q = draw(lex_qname())
        pad = draw(X.ws), draw(X.ws)
        return {"fam": "lex", "t": t, "s": pad[0] + q["s"] + pad[1], "exp": q["exp"], "ns_map": q["ns_map"]}
    lex, val = draw(X.wrap_ws(LEX[t]))
    return {"fam": "lex", "t": t, "s": lex, "exp": enc_exp(t, val)}


def run_lex(case, col):
    t, s = case["t"], case["s"]
    exp = dec_exp(t, case["exp"])
    tp, kw = PY[t]
    kw = dict(kw)
    if "ns_map" in case:
        kw["ns_map"] = {k: v for k, v in case["ns_map"]}
    stripped = s.strip(X.WS)
    nontrivial = len(stripped) > 1 and stripped not in ("true", "false")
    col.case(("lex", t, s), nontrivial, sample={"family": "lex", "type": t, "lexical": s, "expected": case["exp"]},
             labels=[f"lex:{t}", "lex:padded" if stripped != s else "lex:bare"])
    # self-check of the reference model: recogniser agrees with the generator (else harness bug)
    if t not in ("QName", "base64Binary", "period", "string"):
        r = X.recognise(t, s)
        if r is X.INVALID or not deep_eq(enc_exp(t, r), case["exp"]):
            raise RuntimeError(f"reference model inconsistent for {t} {s!r}: {r!r} vs {exp!r}")
    try:
        got = converter.deserialize(s, [tp], **kw)
    except ConverterError as e:
        return [Failure(f"lex-rejected/{t}", f"valid xs:{t} form {s!r} rejected: {e}", case)]
    except Exception as e:
        return [Failure(exc_sig(f"lex-crash/{t}", e), f"xs:{t} form {s!r}: {type(e).__name__}: {e}", case)]
    if not value_matches(t, got, exp):
        return [Failure(f"lex-value/{t}", f"xs:{t} form {s!r} -> {got!r}, XSD value {exp!r}", case)]
    # the non-strict test must agree
    if t != "QName" and not converter.test(s, [tp], **kw):
        return [Failure(f"lex-test/{t}", f"converter.test rejects valid xs:{t} form {s!r}", case)]
    return []


# ---------------------------------------------------------------------------
# family "value": python value -> lexical -> value

def _decimals():
    return st.one_of(
        st.decimals(allow_nan=False, allow_infinity=False),
        st.builds(lambda d, e: Decimal(d).scaleb(e), st.integers(-10**20, 10**20), st.integers(-400, 400)),
        st.sampled_from([Decimal("0"), Decimal("-0"), Decimal("0.0"), Decimal("1E+2"), Decimal("1E-7"),
                         Decimal("Infinity"), Decimal("-Infinity"), Decimal("NaN")]),
    )


def _ints():
    b = [2**k for k in (7, 8, 15, 16, 31, 32, 63, 64)]
    near = [s * x + d for x in b for d in (-2, -1, 0, 1, 2) for s in (1, -1)]
    return st.one_of(st.sampled_from(near), st.integers(), st.integers(-10**40, 10**40))


FORMATS = {
    "dt": ["%Y-%m-%dT%H:%M:%S", "%d/%m/%Y %H:%M:%S.%f", "%Y%m%d%H%M%S", "%Y-%m-%d %H:%M:%S%z"],
    "d": ["%Y-%m-%d", "%d/%m/%Y", "%Y%j", "%d %B %Y"],
    "t": ["%H:%M:%S", "%H.%M.%S.%f", "%I:%M:%S %p", "%H:%M"],
}


@st.composite
def case_value(draw):
    kind = draw(st.sampled_from(["float", "float", "int", "decimal", "bool", "str", "bytes", "qname", "xdate", "xtime",
                                 "xdatetime", "dt", "d", "t"]))
    c = {"fam": "value", "kind": kind}
    if kind == "float":
        c["v"] = enc(draw(st.floats()))
    elif kind == "int":
        c["v"] = draw(_ints())
    elif kind == "decimal":
        c["v"] = enc(draw(_decimals()))
    elif kind == "bool":
        c["v"] = draw(st.booleans())
    elif kind == "str":
        c["v"] = draw(st.text(max_size=10))
    elif kind == "bytes":
        c["v"] = enc(draw(st.binary(max_size=40)))
        c["format"] = draw(st.sampled_from(["base16", "base64"]))
    elif kind == "qname":
        uri = draw(st.one_of(st.none(), URI))
        local = draw(NCNAME)
        c["v"] = {"qn": "{%s}%s" % (uri, local) if uri else local}
        mode = draw(st.sampled_from(["none", "mapped", "unmapped", "default"]))
        # prefix maps as the serializer/parsers pass them: the default namespace has key None.
        # A QName in no namespace cannot be written while a default namespace is in scope
        # (an unprefixed QName resolves to the default namespace), so that pair is not generated.
        c["ns_map"] = None if mode == "none" else []
        if mode == "mapped" and uri:
            c["ns_map"] = [[draw(st.sampled_from(["p", "ns0", "xs"])), uri]]
        if mode == "default" and uri:
            c["ns_map"] = [[None, uri]] if draw(st.booleans()) else [[None, uri], ["p", uri]]
        if mode == "unmapped":
            c["ns_map"] = [["ns0", "urn:other"]]
    elif kind == "xdate":
        _, v = draw(X.lex_date())
        c["v"] = {"xd": list(v)}
    elif kind == "xtime":
        _, v = draw(X.lex_time())
        c["v"] = {"xt": list(v)}
    elif kind == "xdatetime":
        _, v = draw(X.lex_datetime())
        c["v"] = {"xdt": list(v)}
    elif kind == "dt":
        fmt = draw(st.sampled_from(FORMATS["dt"]))
        tz = draw(st.sampled_from([None, 0, 120, -330])) if "%z" in fmt else None
        v = draw(st.datetimes(min_value=datetime.datetime(1000, 1, 1), max_value=datetime.datetime(9999, 12, 31, 23, 59, 59)))
        if "%f" not in fmt:
            v = v.replace(microsecond=0)
        if "%z" in fmt:
            v = v.replace(tzinfo=datetime.timezone(datetime.timedelta(minutes=tz or 0)))
        c["v"], c["format"] = enc(v), fmt
    elif kind == "d":
        c["v"] = enc(draw(st.dates(min_value=datetime.date(1000, 1, 1))))
        c["format"] = draw(st.sampled_from(FORMATS["d"]))
    elif kind == "t":
        fmt = draw(st.sampled_from(FORMATS["t"]))
        v = draw(st.times())
        if "%f" not in fmt:
            v = v.replace(microsecond=0)
        if "%S" not in fmt:
            v = v.replace(second=0)
        c["v"], c["format"] = enc(v), fmt
    return c


QNAME_LEX = re.compile(r"(?:[^\W\d][\w.\-]*:)?[^\W\d][\w.\-]*")


def run_value(case, col):
    kind = case["kind"]
    v = dec(case["v"])
    kw = {}
    if case.get("format"):
        kw["format"] = case["format"]
    if "ns_map" in case and case["ns_map"] is not None:
        kw["ns_map"] = {k: v for k, v in case["ns_map"]}
    trivial = v in (0, 1, "", True, False) if not isinstance(v, (float, Decimal)) or not (v != v) else False
    fails = []
    try:
        s = converter.serialize(v, **kw)
    except Exception as e:
        col.case(("value", kind, case["v"]), not trivial, labels=[f"value:{kind}"])
        return [Failure(exc_sig(f"value-serialize/{kind}", e), f"serialize({v!r}) raised {type(e).__name__}: {e}", case)]
    col.case(("value", kind, case["v"], case.get("format"), str(case.get("ns_map"))), not trivial and len(s) > 1,
             sample={"family": "value", "kind": kind, "value": repr(v), "lexical": s, "kwargs": {k: str(x) for k, x in kw.items()}},
             labels=[f"value:{kind}"])
    if not isinstance(s, str):
        return [Failure(f"value-notstr/{kind}", f"serialize({v!r}) -> {s!r}", case)]

    # (1) lexical validity against the datatype
    xs = None
    if kind == "float":
        xs = "double"
        r = X.recognise("double", s, collapse_ws=False)
        if r is X.INVALID or not deep_eq(r, v):
            fails.append(Failure("value-lexical/float", f"serialize({v!r}) = {s!r}: not a valid xs:double form of that value", case))
        code = DataType.from_value(v).code
        if not X.libxml_valid(code, s):
            fails.append(Failure("value-lexical-libxml/float", f"{s!r} (from {v!r}) rejected by libxml2 as xs:{code}", case))
    elif kind == "int":
        r = X.recognise("integer", s, collapse_ws=False)
        if r is X.INVALID or r != v:
            fails.append(Failure("value-lexical/int", f"serialize({v!r}) = {s!r}", case))
        code = DataType.from_value(v).code
        if not X.libxml_valid(code, s):
            fails.append(Failure("value-datatype/int", f"{v!r} is given datatype xs:{code} but {s!r} is not in its lexical space (libxml2)", case))
    elif kind == "decimal":
        if v.is_finite():
            r = X.recognise("decimal", s, collapse_ws=False)
            if r is X.INVALID or r != Fraction(v):
                fails.append(Failure("value-lexical/decimal", f"serialize({v!r}) = {s!r}: not a valid xs:decimal form of that value", case))
            elif not X.libxml_valid("decimal", s):
                fails.append(Failure("value-lexical-libxml/decimal", f"{s!r} rejected by libxml2 as xs:decimal", case))
    elif kind == "bool":
        if s not in ("true", "false") or (s == "true") != v:
            fails.append(Failure("value-lexical/bool", f"serialize({v!r}) = {s!r}", case))
    elif kind == "bytes":
        if case["format"] == "base16":
            ok = X.recognise("hexBinary", s, collapse_ws=False) == v and X.libxml_valid("hexBinary", s)
        else:
            try:
                ok = base64.b64decode(s, validate=True) == v and X.libxml_valid("base64Binary", s)
            except Exception:
                ok = False
        if not ok:
            fails.append(Failure(f"value-lexical/bytes-{case['format']}", f"serialize({v!r}) = {s!r}", case))
    elif kind == "qname":
        if case["ns_map"] is not None:
            if not QNAME_LEX.fullmatch(s):
                fails.append(Failure("value-lexical/qname", f"serialize({v!r}, ns_map={case['ns_map']}) = {s!r} is not a QName", case))
            else:
                prefix = s.partition(":")[0] if ":" in s else None
                uri = v.text[1:].partition("}")[0] if v.text[0] == "{" else None
                m = kw["ns_map"]      # may have been extended by the call (documented: generates prefixes)
                bound = m.get(prefix)
                if uri and bound != uri:
                    fails.append(Failure("value-qname-prefix", f"serialize({v!r}) = {s!r} but prefix {prefix!r} is bound to {bound!r} in {m}", case))
    elif kind in ("xdate", "xtime", "xdatetime"):
        t = {"xdate": "date", "xtime": "time", "xdatetime": "dateTime"}[kind]
        r = X.recognise(t, s, collapse_ws=False)
        if r is X.INVALID or tuple(r) != tuple(v):
            fails.append(Failure(f"value-lexical/{kind}", f"serialize({v!r}) = {s!r}: not the xs:{t} form of that value", case))
        elif getattr(v, "year", 1) != 0 and not X.libxml_valid(t, s):
            fails.append(Failure(f"value-lexical-libxml/{kind}", f"{s!r} rejected by libxml2 as xs:{t}", case))

    # (2) round trip with the same type and format
    tp = type(v)
    try:
        back = converter.deserialize(s, [tp], **kw)
    except Exception as e:
        fails.append(Failure(exc_sig(f"value-roundtrip-raise/{kind}", e), f"deserialize({s!r}) of serialize({v!r}) raised {type(e).__name__}: {e}", case))
        return fails
    if not deep_eq(back, v):
        fails.append(Failure(f"value-roundtrip/{kind}", f"{v!r} -> {s!r} -> {back!r}", case))

    # (3) a list (xs:list / tokens) of such values is the space-separated sequence of the items' own forms under the
    # same format / prefix map
    def fresh():
        return {k: (dict(x) if isinstance(x, dict) else x) for k, x in kw.items()}
    try:
        one = converter.serialize(v, **fresh())
        for seq in ([v, v], (v,), [v]):
            got = converter.serialize(seq, **fresh())
            if got != " ".join([one] * len(seq)):
                fails.append(Failure(f"value-list/{kind}", f"serialize({seq!r}, {kw}) = {got!r}, items alone give {one!r}", case))
                break
    except Exception as e:
        fails.append(Failure(exc_sig(f"value-list-raise/{kind}", e), f"serialize([{v!r}, ...], {kw}) raised {type(e).__name__}: {e}", case))
    return fails


# ---------------------------------------------------------------------------
# family "union": candidate type lists and the documented priority

UNION_TYPES = ["integer", "boolean", "double", "decimal", "time", "date", "dateTime", "duration", "period", "QName", "string"]


def _accepts_xsd(t, s):
    if t == "string":
        return True
    if t == "period":
        return X.recognise_period(s)[1] is not X.INVALID
    if t == "QName":
        return bool(QNAME_LEX.fullmatch(s.strip(X.WS))) and ":" not in s
    return X.recognise(t, s) is not X.INVALID


@st.composite
def case_union(draw):
    src = draw(st.sampled_from(["integer", "boolean", "double", "decimal", "time", "date", "dateTime", "duration", "period", "word"]))
    if src == "word":
        s = draw(st.sampled_from(["abc", "x1", "hello world", "tru", "P", "12:00", "--", "1-2", "a b", "é"]))
    else:
        s = draw(LEX[src])[0]
        if draw(st.booleans()):
            s = draw(X.ws) + s + draw(X.ws)
    others = draw(st.lists(st.sampled_from(UNION_TYPES), min_size=1, max_size=3, unique=True))
    types = list(dict.fromkeys(others + ([src] if src != "word" else ["string"])))
    types = draw(st.permutations(types))
    return {"fam": "union", "s": s, "types": list(types), "src": src}


def run_union(case, col):
    s, names = case["s"], case["types"]
    tps = [PY[n][0] for n in names]
    ordered = sorted(set(tps), key=DOC_ORDER.index)           # the documented order, from docs/models/types.md
    expected = next((tp for tp in ordered if _accepts_xsd(TNAME[tp], s)), None)
    col.case(("union", s, tuple(names)), len(names) >= 2 and len(s.strip()) > 1,
             sample={"family": "union", "lexical": s, "candidates": names, "expected": getattr(expected, "__name__", None)},
             labels=[f"union:src={case['src']}", f"union:n={len(names)}"])
    if expected is None:
        col.label("union:no-valid-candidate")
        return []
    # over-acceptance of XSD-invalid strings by an earlier candidate is outside the claim
    for tp in ordered[:ordered.index(expected)]:
        try:
            converter.deserialize(s, [tp])
            col.label("union:skipped-overaccept")
            return []
        except ConverterError:
            pass
        except Exception as e:
            return [Failure(exc_sig("union-crash", e), f"deserialize({s!r}, [{tp.__name__}]) raised {type(e).__name__}: {e}", case)]
    sorted_types = converter.sort_types(tps)
    try:
        got = converter.deserialize(s, sorted_types)
    except Exception as e:
        return [Failure(exc_sig("union-raise", e), f"deserialize({s!r}, {names}) raised {type(e).__name__}: {e}; expected {expected.__name__}", case)]
    if type(got) is not expected:
        return [Failure(f"union-priority/{expected.__name__}-got-{type(got).__name__}",
                        f"{s!r} with candidates {names}: documented priority gives {expected.__name__}, got {type(got).__name__} {got!r}", case)]
    if not converter.test(s, tps):
        return [Failure("union-test", f"converter.test({s!r}, {names}) is False", case)]
    return []


# ---------------------------------------------------------------------------
# family "enum"

@st.composite
def case_enum(draw):
    base = draw(st.sampled_from(["str", "int", "float", "decimal", "qname"]))
    n = draw(st.integers(1, 5))
    if base == "str":
        vals = draw(st.lists(st.text(alphabet=st.characters(blacklist_categories=("Cs", "Cc", "Zs", "Zl", "Zp")), min_size=1, max_size=6), min_size=n, max_size=n, unique=True))
        vals = [enc(v) for v in vals]
    elif base == "int":
        vals = draw(st.lists(st.integers(-10**12, 10**12), min_size=n, max_size=n, unique=True))
    elif base == "float":
        fl = draw(st.lists(st.floats(allow_nan=False), min_size=n, max_size=n, unique_by=lambda f: (f, math.copysign(1, f))))
        # 0.0 and -0.0 are the same enum value for python; keep one
        seen, vals = set(), []
        for f in fl:
            if f not in seen:
                seen.add(f)
                vals.append(enc(f))
    elif base == "decimal":
        ds = draw(st.lists(st.decimals(allow_nan=False, allow_infinity=False, places=3, min_value=-10**6, max_value=10**6), min_size=n, max_size=n, unique=True))
        vals = [enc(d) for d in ds]
    else:
        vals = [{"qn": "{%s}%s" % (u, l)} for u, l in draw(st.lists(st.tuples(URI, NCNAME), min_size=n, max_size=n, unique=True))]
    pick = draw(st.integers(0, len(vals) - 1))
    ns_map = {"p": "urn:a"} if base == "qname" and draw(st.booleans()) else None
    return {"fam": "enum", "base": base, "values": vals, "pick": pick, "ns_map": ns_map,
            "pad": [draw(X.ws), draw(X.ws)] if base != "str" else ["", ""]}


def run_enum(case, col):
    vals = [dec(v) for v in case["values"]]
    E = enum.Enum("E", {f"M{i}": v for i, v in enumerate(vals)})
    member = list(E)[case["pick"]]
    kw = {}
    if case["ns_map"] is not None:
        kw["ns_map"] = dict(case["ns_map"])
    col.case(("enum", case["base"], case["values"], case["pick"]), len(vals) > 1,
             sample={"family": "enum", "base": case["base"], "members": [repr(v) for v in vals], "picked": member.name},
             labels=[f"enum:{case['base']}"])
    try:
        s = converter.serialize(member, **kw)
        s2 = converter.serialize(member.value, **kw)
    except Exception as e:
        return [Failure(exc_sig("enum-serialize", e), f"serialize({member!r}) raised {e!r}", case)]
    if s != s2:
        return [Failure("enum-serialize-differs", f"serialize(member)={s!r} but serialize(member.value)={s2!r}", case)]
    padded = case["pad"][0] + s + case["pad"][1]
    try:
        back = converter.deserialize(padded, [E], **kw)
    except Exception as e:
        return [Failure(exc_sig(f"enum-roundtrip-raise/{case['base']}", e), f"deserialize({padded!r}, enum over {vals!r}) raised {e!r}", case)]
    if back is not member:
        return [Failure(f"enum-roundtrip/{case['base']}", f"{member!r} -> {padded!r} -> {back!r}", case)]
    return []



# ---------------------------------------------------------------------------
# family "enumctx": one enumeration class, several conversions under *different* contexts
# (prefix maps for QName members, formats for bytes members): the result may depend on the
# context of the call only, never on earlier calls.

@st.composite
def case_enumctx(draw):
    base = draw(st.sampled_from(["qname", "bytes"]))
    if base == "qname":
        locals_ = draw(st.lists(NCNAME, min_size=1, max_size=2, unique=True))
        uris = draw(st.lists(URI, min_size=2, max_size=3, unique=True))
        members = [[u, l] for u in uris for l in locals_]
        steps = []
        for _ in range(draw(st.integers(2, 4))):
            u, l = draw(st.sampled_from(members))
            prefix = draw(st.sampled_from(["p", "p", "q", None]))
            steps.append({"s": (f"{prefix}:{l}" if prefix else l), "ns_map": [[prefix, u]], "expect": members.index([u, l])})
        return {"fam": "enumctx", "base": base, "members": members, "steps": steps}
    # bytes: strings that are valid in both formats decode to different values
    texts = draw(st.lists(st.text(alphabet="0123456789abcdefABCDEF", min_size=4, max_size=8).filter(lambda t: len(t) % 4 == 0),
                          min_size=1, max_size=2, unique=True))
    members, steps = [], []
    for t in texts:
        members.append(["base16", t])
        members.append(["base64", t])
    for _ in range(draw(st.integers(2, 4))):
        i = draw(st.integers(0, len(members) - 1))
        steps.append({"s": members[i][1], "format": members[i][0], "expect": i})
    return {"fam": "enumctx", "base": base, "members": members, "steps": steps}


def run_enumctx(case, col):
    if case["base"] == "qname":
        vals = [QName(u, l) for u, l in case["members"]]
    else:
        vals = [bytes.fromhex(t) if f == "base16" else base64.b64decode(t) for f, t in case["members"]]
    # members with equal values are aliases in a python Enum: expected member = first with that value
    E = enum.Enum("E", {f"M{i}": v for i, v in enumerate(vals)})
    ctxs = {str(st_.get("ns_map") or st_.get("format")) for st_ in case["steps"]}
    col.case(("enumctx", case["base"], case["members"], case["steps"]), len(ctxs) > 1,
             sample={"family": "enumctx", "members": case["members"], "steps": case["steps"]},
             labels=[f"enumctx:{case['base']}", f"enumctx:contexts={len(ctxs)}"])
    for i, step in enumerate(case["steps"]):
        kw = {"ns_map": {k: v for k, v in step["ns_map"]}} if "ns_map" in step else {"format": step["format"]}
        want = E(vals[step["expect"]])
        try:
            got = converter.deserialize(step["s"], [E], **kw)
        except Exception as e:
            return [Failure(exc_sig(f"enumctx-raise/{case['base']}", e), f"step {i}: deserialize({step['s']!r}, {kw}) raised {e!r}", case)]
        if got is not want:
            return [Failure(f"enumctx-history/{case['base']}", f"step {i} of {case['steps']}: deserialize({step['s']!r}, {kw}) = {got!r}, expected {want!r}", case)]
    return []

# ---------------------------------------------------------------------------
# family "bounds" (exhaustive): integer datatype inference around every boundary

def bounds_cases():
    out = []
    for k in (7, 8, 15, 16, 31, 32, 63, 64):
        for sgn in (1, -1):
            for d in range(-2, 3):
                out.append({"fam": "value", "kind": "int", "v": sgn * 2**k + d})
    for f in (0.0, -0.0, 1.175494351e-38, -1.175494351e-38, 3.402823466e38, 3.5e38, -3.5e38, 5e-324, 1.7976931348623157e308,
              1e16, 1e-5, 123456789.123456789, 1e22, 1e23, float("inf"), float("-inf"), float("nan")):
        out.append({"fam": "value", "kind": "float", "v": enc(f)})
    return out


# ---------------------------------------------------------------------------

FAMILIES = {"lex": (case_lex, run_lex), "value": (case_value, run_value), "union": (case_union, run_union),
            "enum": (case_enum, run_enum), "enumctx": (case_enumctx, run_enumctx)}
RUN = {k: v[1] for k, v in FAMILIES.items()}


def execute(case, col):
    return RUN[case["fam"]](case, col)


def plan(tier, seed):
    per = {"quick": {"lex": 5000, "value": 5000, "union": 2500, "enum": 1200, "enumctx": 1200},
           "thorough": {"lex": 400000, "value": 400000, "union": 150000, "enum": 50000, "enumctx": 50000}}[tier]
    nsh = {"quick": 4, "thorough": 16}[tier]
    shards = [{"fam": "bounds"}]
    for fam, n in per.items():
        for i in range(nsh):
            shards.append({"fam": fam, "n": n // nsh, "seed": seed * 1000 + i})
    return shards


def run_shard(shard, col):
    if shard["fam"] == "bounds":
        for c in bounds_cases():
            for f in execute(c, col):
                col.fail(f)
        col.exhaustive.append("integers within +-2 of +-2^k, k in {7,8,15,16,31,32,63,64}, and float datatype boundaries")
        return
    strat, fn = FAMILIES[shard["fam"]]
    hyp_campaign(strat(), fn, shard["n"], shard["seed"], col)


def replay_case(case):
    from vlib.core import Collector
    return list(execute(case, Collector()) or ())
