"""C18 - Python-code rendering evaluates back to the object (DESIGN §C18)."""
from hypothesis import strategies as st

from vlib import models as M
from vlib.codec import deep_eq, first_diff
from vlib.core import Failure, exc_sig, hyp_campaign

ID = "C18"
LEVEL = "exploration"
RULE = ("Hypothesis draws a binding model (ModelSpec: nested/inner classes, nested enums, inheritance, frozen models with "
        "tuples, generic AnyElement values, attribute maps) and an instance with values of every documented primitive type "
        "(non-finite floats, signed zeros, Decimals, QNames, bytes, Xml date/time/duration/period types, datetime/date values, "
        "enum members, empty and nested collections, strings with quotes/backslashes/newlines/astral characters) and a "
        "variable name. Oracle: exec(PycodeSerializer.render(x, name)) in an *empty* namespace succeeds (so the emitted "
        "imports are sufficient) and binds `name` to an object structurally equal to x. Non-trivial = at least one "
        "non-default non-string value and nesting >= 2; distinct by fingerprint of (spec, instance).")
ASSUMPTIONS = [
    "model modules are registered in sys.modules under a unique name so that the emitted `from <module> import <Class>` can resolve",
    "structural equality distinguishes list/tuple, bool/int/float, -0.0/0.0 and treats NaN as equal to NaN",
]

from xsdata.formats.dataclass.serializers import PycodeSerializer  # noqa: E402

OPTS = M.Opts(cr=True, mixin_enums=True, unrepresentable=True, required_none=True)


@st.composite
def cases(draw):
    mi = draw(M.model_and_instance(OPTS))
    mi["var"] = draw(st.sampled_from(["obj", "obj", "x", "value_1", "_"]))
    return mi


def execute(case, col):
    try:
        model = M.Model(case["spec"])
    except Exception as e:
        raise RuntimeError(f"generator produced an invalid model: {e!r}\n{M.source(case['spec'], 'x')}")
    try:
        return _execute(case, col, model)
    finally:
        model.dispose()


def _execute(case, col, model):
    spec = case["spec"]
    obj = model.decode(case["inst"])
    kinds, depth, nodes = M.instance_stats(case["inst"], spec)
    import json
    txt = json.dumps(case["inst"])
    labels = [f"kind:{k}" for k in kinds]
    for tag, lab in (('"f":', "value:float"), ('"dec"', "value:Decimal"), ('"qn"', "value:QName"), ('"b":', "value:bytes"), ('"xd"', "value:XmlDate"),
                     ('"dur"', "value:XmlDuration"), ('"per"', "value:XmlPeriod"), ('"dt"', "value:datetime"), ('"d":', "value:date"),
                     ('"enum"', "value:enum"), ('"tup": [{', "value:non-empty-tuple"), ('"tup": [', "value:tuple"), ('AnyElement', "value:AnyElement")):
        if tag in txt:
            labels.append(lab)
    if any(c.get("inner_of") is not None for c in spec["classes"]):
        labels.append("inner-class")
    if any(e.get("inner_of") is not None for e in spec["enums"]):
        labels.append("nested-enum")
    nontrivial = depth >= 2 and any(l.startswith("value:") for l in labels)
    name = case["var"]
    try:
        code = PycodeSerializer().render(obj, name)
    except Exception as e:
        col.case((spec, case["inst"]), nontrivial, labels=labels)
        return [Failure(exc_sig("render-raise", e), f"{type(e).__name__}: {e}\nobject: {obj!r}\nmodel:\n{model.src}", case)]
    col.case((spec, case["inst"], name), nontrivial, labels=labels,
             sample={"model": model.src.split("import upper, suffix, cap\n")[-1], "instance": repr(obj)[:1500], "code": code[:3000]})
    ns = {}
    try:
        exec(compile(code, "<rendered>", "exec"), ns)
    except Exception as e:
        return [Failure(f"exec-raise/{type(e).__name__}", f"rendered code does not run: {type(e).__name__}: {e}\ncode:\n{code[:3000]}\nmodel:\n{model.src}", case)]
    if name not in ns:
        return [Failure("variable-not-bound", f"`{name}` is not bound by the rendered code\ncode:\n{code[:2000]}", case)]
    back = ns[name]
    # the property promises an *equal* object: values the serializer leaves out because they equal the field default under the
    # type's own `==` (0.0 / -0.0, a time with offset 0 / without offset) are equal in that sense
    if not deep_eq(back, obj, own_eq=True):
        from checks.c01 import classify
        return [Failure("evaluates-differently/" + classify(case, obj, back), f"{first_diff(obj, back)}\ncode:\n{code[:3000]}\nmodel:\n{model.src}", case)]
    return []


def plan(tier, seed):
    n, nsh = {"quick": (12000, 16), "thorough": (480000, 64)}[tier]
    return [{"n": n // nsh, "seed": seed * 1000 + i} for i in range(nsh)]


def run_shard(shard, col):
    hyp_campaign(cases(), execute, shard["n"], shard["seed"], col)


def replay_case(case):
    from vlib.core import Collector
    return list(execute(case, Collector()) or ())
