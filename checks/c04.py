"""C04 - JSON and dictionary round-trip (DESIGN §C04)."""
import json
import warnings

from hypothesis import strategies as st

from vlib import models as M
from vlib.codec import deep_eq, first_diff
from vlib.core import Failure, exc_sig, hyp_campaign

ID = "C04"
LEVEL = "exploration"
RULE = ("Hypothesis draws a binding model without untyped (anyType) primitive fields whose dictionary image is unambiguous "
        "by the documented rules (local names unique per class; compound choices distinguishable by JSON kind; subclasses "
        "distinguishable by a required key; plus a 'scored' family: two candidate models with the same keys, one typed and one "
        "all-strings, behind a union/compound field, where the documented best-match scoring must pick the original class, also "
        "for falsy values), an instance, and a route: {DictEncoder->DictDecoder, JsonSerializer->JsonParser} x "
        "{dict, DictFactory.FILTER_NONE} x {single object, list of objects} x indent. Oracles: decode(encode(x)) structurally "
        "equals x (with FILTER_NONE the omitted keys decode to the field defaults, which equal the omitted None values); "
        "the encoded structure holds only dict[str,..]/list/tuple/str/int/float/bool/None and json.dumps without a default "
        "hook succeeds and json.loads gives it back. Non-trivial = at least one nested model or list of models and at least "
        "one non-string primitive; distinct by fingerprint of (spec, instance, route).")
ASSUMPTIONS = [
    "models are confined to those with an unambiguous dictionary image (docs/models/fields.md warns that compound fields and "
    "sibling classes with the same shape cannot round-trip through JSON); the number of such draws avoided is not a violation",
    "NaN/Infinity floats are dumped by Python's json as NaN/Infinity (non-standard JSON, accepted by json.loads)",
]

from xsdata.formats.dataclass.context import XmlContext  # noqa: E402
from xsdata.formats.dataclass.parsers import DictDecoder, JsonParser  # noqa: E402
from xsdata.formats.dataclass.parsers.config import ParserConfig  # noqa: E402
from xsdata.formats.dataclass.serializers import DictEncoder, JsonSerializer  # noqa: E402
from xsdata.formats.dataclass.serializers.config import SerializerConfig  # noqa: E402
from xsdata.formats.dataclass.serializers.dict import DictFactory  # noqa: E402

OPTS = M.Opts(json_safe=True, cr=True)


TYPED = ["int", "float", "bool", "decimal", "xdate", "xtime"]


@st.composite
def scored_cases(draw):
    """Two candidate models with the same keys: A typed, B all strings, held by a union / compound / base-typed field.
    The decoder is documented to bind the data to every candidate and keep the best match (typed values score higher)."""
    from tools.mk_known_c01 import cls, fld, spec
    n = draw(st.integers(1, 3))
    names = draw(st.lists(st.sampled_from(M.NCNAMES), min_size=n, max_size=n, unique=True))
    prims = [draw(st.sampled_from(TYPED)) for _ in names]
    kind = draw(st.sampled_from(["Element", "Attribute"]))
    a_fields = [fld(f"a{i}", kind, [{"p": p}], card=draw(st.sampled_from(["one", "opt"])), name=nm) for i, (nm, p) in enumerate(zip(names, prims))]
    b_fields = [fld(f"b{i}", kind, [{"p": "str"}], card=a_fields[i]["card"], name=nm) for i, nm in enumerate(names)]
    holder = draw(st.sampled_from(["union", "compound"]))
    if holder == "union":
        hf = fld("h", "Element", [{"c": 1}, {"c": 2}], card=draw(st.sampled_from(["one", "list"])), name="h")
    else:
        hf = fld("h", "Elements", [], card="list", choices=[{"name": "ca", "types": [{"c": 1}], "tokens": 0, "nillable": False},
                                                           {"name": "cb", "types": [{"c": 2}], "tokens": 0, "nillable": False}])
    sp = spec([cls("Root", [hf]), cls("A", a_fields, name="AT"), cls("B", b_fields, name="BT")])

    def inst_a():
        kw = {}
        for f, p in zip(a_fields, prims):
            falsy = {"int": 0, "float": {"f": "0x0.0p+0"}, "bool": False, "decimal": {"dec": "0"}}.get(p)
            v = falsy if falsy is not None and draw(st.booleans()) else draw(M.PRIMS[p][1])
            kw[f["py"]] = None if f["card"] == "opt" and draw(st.integers(0, 3)) == 0 else v
        if all(v is None for v in kw.values()):
            kw[a_fields[0]["py"]] = draw(M.PRIMS[prims[0]][1])
        return {"obj": 1, "kw": kw}

    def inst_b():
        return {"obj": 2, "kw": {f["py"]: draw(st.sampled_from(["text", "n/a", "x y"])) for f in b_fields}}
    items = [draw(st.sampled_from([inst_a, inst_a, inst_b]))() for _ in range(draw(st.integers(1, 3)))]
    value = items if hf["card"] == "list" else items[0]
    return {"spec": sp, "inst": {"obj": 0, "kw": {"h": value}}, "more": [],
            "cfg": {"route": draw(st.sampled_from(["dict", "json"])), "factory": draw(st.sampled_from(["dict", "filter_none"])),
                    "as_list": False, "indent": None, "shared_context": draw(st.booleans()), "ignore_default_attributes": False},
            "family": "scored"}


@st.composite
def cases(draw):
    if draw(st.integers(0, 5)) == 0:
        return draw(scored_cases())
    mi = draw(M.model_and_instance(OPTS))
    n_extra = draw(st.sampled_from([0, 0, 1, 2]))
    mi["more"] = [M.instance_of(draw, mi["spec"], mi["spec"]["root"], True, None) for _ in range(n_extra)]
    mi["cfg"] = {"route": draw(st.sampled_from(["dict", "json"])), "factory": draw(st.sampled_from(["dict", "filter_none"])),
                 "as_list": n_extra > 0 or draw(st.integers(0, 5)) == 0, "indent": draw(st.sampled_from([None, 2])),
                 "shared_context": draw(st.booleans()), "ignore_default_attributes": draw(st.integers(0, 4)) == 0}
    return mi


def json_native(x, path="$"):
    """None if x holds only JSON-native values, else the path of the first offender."""
    if x is None or isinstance(x, (str, bool, int, float)):
        return None
    if isinstance(x, dict):
        for k, v in x.items():
            if not isinstance(k, str):
                return f"{path}: key {k!r}"
            r = json_native(v, f"{path}.{k}")
            if r:
                return r
        return None
    if isinstance(x, (list, tuple)):
        for i, v in enumerate(x):
            r = json_native(v, f"{path}[{i}]")
            if r:
                return r
        return None
    return f"{path}: {type(x).__name__} {x!r}"


def tuples_to_lists(x):
    if isinstance(x, dict):
        return {k: tuples_to_lists(v) for k, v in x.items()}
    if isinstance(x, (list, tuple)):
        return [tuples_to_lists(v) for v in x]
    return x


def execute(case, col):
    try:
        model = M.Model(case["spec"])
    except Exception as e:
        raise RuntimeError(f"generator produced an invalid model: {e!r}\n{M.source(case['spec'], 'x')}")
    try:
        return _execute(case, col, model)
    finally:
        model.dispose()


def _nonstring_prims(x):
    if isinstance(x, dict):
        if "obj" in x:
            return any(_nonstring_prims(v) for v in x["kw"].values())
        return set(x) != {"map"} and set(x) != {"tup"} or any(_nonstring_prims(v) for v in (x.get("tup") or []))
    if isinstance(x, list):
        return any(_nonstring_prims(v) for v in x)
    return isinstance(x, (bool, int)) and x is not None


def _execute(case, col, model):
    spec, cfg = case["spec"], case["cfg"]
    objs = [model.decode(i) for i in [case["inst"]] + case["more"]]
    value = objs if cfg["as_list"] else objs[0]
    kinds, depth, nodes = M.instance_stats(case["inst"], spec)
    nontrivial = (depth >= 2 or nodes > 1) and _nonstring_prims(case["inst"])
    labels = [f"route:{cfg['route']}", f"factory:{cfg['factory']}", "list-document" if cfg["as_list"] else "single-document"] + [f"kind:{k}" for k in kinds]
    if case.get("family") == "scored":
        labels.append("family:scored-candidates")
        nontrivial = True
    if any(c["base"] is not None for c in spec["classes"]):
        labels.append("inheritance")
    if any(c["frozen"] for c in spec["classes"]):
        labels.append("frozen")
    ctx = XmlContext()
    factory = dict if cfg["factory"] == "dict" else DictFactory.FILTER_NONE
    if factory is not dict and not case.get("no_guards") and '"AnyElement"' in json.dumps([case["inst"], case["more"]]):
        # generic elements lose their None keys under FILTER_NONE and are no longer recognised (recorded finding)
        factory = dict
        labels.append("filter_none-not-applied:generic-element")
    scfg = SerializerConfig(indent=cfg["indent"], ignore_default_attributes=cfg["ignore_default_attributes"])
    pctx = ctx if cfg["shared_context"] else XmlContext()
    pcfg = ParserConfig(fail_on_unknown_properties=True, fail_on_unknown_attributes=True, fail_on_converter_warnings=True)
    target = list[model.root] if cfg["as_list"] else model.root
    fails = []
    try:
        if cfg["route"] == "dict":
            encoded = DictEncoder(context=ctx, config=scfg, dict_factory=factory).encode(value)
            text = None
        else:
            ser = JsonSerializer(context=ctx, config=scfg, dict_factory=factory)
            encoded = ser.encode(value)
            text = ser.render(value)
    except Exception as e:
        col.case((spec, case["inst"], case["more"], cfg), nontrivial, labels=labels)
        return [Failure(exc_sig("encode-raise", e), f"{type(e).__name__}: {e}\nobject: {objs[0]!r}\nmodel:\n{model.src}", case)]
    col.case((spec, case["inst"], case["more"], cfg), nontrivial, labels=labels,
             sample={"model": model.src.split("import upper, suffix, cap\n")[-1], "instance": repr(value)[:1500], "config": cfg,
                     "encoded": text if text is not None else repr(encoded)[:1500]})
    # (a) JSON-native values only
    bad = json_native(encoded)
    if bad:
        fails.append(Failure("not-json-native", f"encoded form holds a non JSON value at {bad}\nmodel:\n{model.src}", case))
    else:
        try:
            dumped = json.dumps(encoded)
            if not deep_eq(json.loads(dumped), tuples_to_lists(encoded)) and "NaN" not in dumped:
                fails.append(Failure("json-dump-load-differs", f"json.loads(json.dumps(encoded)) != encoded\n{dumped[:500]}", case))
        except Exception as e:
            fails.append(Failure("json-dumps-raise", f"json.dumps(encoded) raised {e!r}", case))
    # (b) decode
    try:
        with warnings.catch_warnings():
            warnings.simplefilter("error")
            if cfg["route"] == "dict":
                back = DictDecoder(context=pctx, config=pcfg).decode(encoded, target)
            else:
                back = JsonParser(context=pctx, config=pcfg).from_string(text, target)
    except Exception as e:
        fails.append(Failure(exc_sig("decode-raise", e), f"xsdata rejects its own output: {type(e).__name__}: {e}\nencoded: {(text or repr(encoded))[:1500]}\nobject: {value!r}\nmodel:\n{model.src}", case))
        return fails
    # with ignore_default_attributes an attribute that equals its default under python equality (02:00:00Z == 02:00:00) is left
    # out and decodes to the default: an equal object, which is what the property promises
    if not deep_eq(back, value, own_eq=bool(cfg.get("ignore_default_attributes"))):
        from checks.c01 import classify
        a, b = (value[0], back[0]) if cfg["as_list"] and len(value) == len(back) == 1 else (value, back)
        key = classify(case, a, b) if not isinstance(a, list) else "list"
        fails.append(Failure(f"roundtrip-differs/{cfg['route']}/{key}", f"{first_diff(value, back)}\nencoded: {(text or repr(encoded))[:1500]}\nmodel:\n{model.src}", case))
    return fails


def plan(tier, seed):
    n, nsh = {"quick": (12000, 16), "thorough": (480000, 64)}[tier]
    return [{"n": n // nsh, "seed": seed * 1000 + i} for i in range(nsh)]


def run_shard(shard, col):
    hyp_campaign(cases(), execute, shard["n"], shard["seed"], col)


def replay_case(case):
    from vlib.core import Collector
    return list(execute(case, Collector()) or ())
