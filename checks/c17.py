"""C17 - WSDL generation yields usable SOAP bindings (DESIGN §C17)."""
import warnings

from hypothesis import strategies as st

from vlib import codegen as G
from vlib import infoset as I
from vlib import wsdls as W
from vlib.core import Collector, Failure, exc_sig, hyp_campaign

ID = "C17"
LEVEL = "exploration"
RULE = ("Hypothesis draws a WsdlSpec (1-4 operations, document or rpc style, parts by element or by builtin / complex type, optional "
        "soap:header (in a message of its own or next to the body parts, selected with parts=) and fault, per-operation style overrides and omitted soapAction, schema inline or imported, varied target / schema namespaces, endpoint and SOAPAction strings) and, per "
        "operation, the request, response and fault envelopes the WSDL prescribes (written by the harness from the spec alone). Oracles: "
        "generation succeeds and imports; per operation there is a service class carrying the binding's style, location, transport and "
        "SOAPAction plus input and output envelope classes; the prescribed request parses strictly into the input class and "
        "Client.send posts, to the endpoint and with content-type text/xml and the SOAPAction header, a payload whose infoset equals "
        "the prescribed request; the recorded transport's canned response (and fault) comes back as an output-class object whose "
        "re-serialization equals the response. Non-trivial = >= 2 operations or a header / fault / complex-typed part; distinct by "
        "fingerprint of (spec, envelopes, options).")
ASSUMPTIONS = [
    "code generation runs through stand-ins for click/jinja2/toposort/requests and without ruff (DESIGN §1.1); the transport is a "
    "recording object implementing xsdata's Transport interface",
    "the prescribed envelopes follow WSDL 1.1 section 3.5 and WS-I Basic Profile 1.1 (vlib/wsdls.envelope)",
]

from xsdata.formats.dataclass.client import Client  # noqa: E402
from xsdata.formats.dataclass.context import XmlContext  # noqa: E402
from xsdata.formats.dataclass.parsers import XmlParser  # noqa: E402
from xsdata.formats.dataclass.parsers.config import ParserConfig  # noqa: E402
from xsdata.formats.dataclass.transports import DefaultTransport, Transport  # noqa: E402

HTTP = "http://schemas.xmlsoap.org/soap/http"


class Recorder(Transport):
    def __init__(self, response):
        self.calls, self.response = [], response

    def get(self, url, params, headers):
        raise AssertionError("GET is not part of a SOAP call")

    def post(self, url, data, headers):
        self.calls.append((url, data, dict(headers)))
        return self.response


class FakeResponse:
    """What a requests.Response offers to DefaultTransport (SOAP 1.1 over HTTP: faults travel with status 500)."""

    def __init__(self, status, content):
        self.status_code, self.content, self.ok = status, content, status < 400

    def raise_for_status(self):
        if self.status_code >= 400:
            from requests import HTTPError
            raise HTTPError(f"{self.status_code} Server Error")


class FakeSession:
    """Stands where requests.Session stands inside xsdata's own DefaultTransport; records the call."""

    def __init__(self, status, content):
        self.calls, self.status, self.content = [], status, content

    def post(self, url, data=None, headers=None, timeout=None, **kw):
        self.calls.append((url, data, dict(headers or {})))
        return FakeResponse(self.status, self.content)

    def get(self, *a, **k):
        raise AssertionError("GET is not part of a SOAP call")


@st.composite
def cases(draw):
    spec = draw(W.wsdl_specs())
    msgs = []
    for op in spec["ops"]:
        msgs.append({"request": W.envelope(draw, spec, op, "input"), "response": W.envelope(draw, spec, op, "output"),
                     "fault": W.envelope(draw, spec, op, "output", fault=True)})
    opts = {"structure_style": draw(st.sampled_from(["filenames", "namespaces", "clusters", "single-package"])),
            "compound_fields.enabled": draw(st.booleans()), "format.frozen": draw(st.booleans()), "unnest_classes": draw(st.booleans())}
    return {"spec": spec, "messages": msgs, "options": opts}


def canon(xml):
    return I.canon(I.parse_strict(xml.encode() if isinstance(xml, str) else xml), strip_ws=True, resolve=True)


def execute(case, col):
    spec, opts = case["spec"], case["options"]
    wsdl = W.render_wsdl(spec)
    sources = {"service.wsdl": wsdl}
    if not spec["inline"]:
        sources["types.xsd"] = '<?xml version="1.0" encoding="UTF-8"?>\n' + W.render_xsd(spec)
    if W.split_elements(spec):
        sources["part.wsdl"] = W.render_part_wsdl(spec)
    rich = len(spec["ops"]) >= 2 or any(o["header"] or o["fault"] or any(p.get("type") in spec["types"] for p in o["input"] + o["output"]) for o in spec["ops"])
    col.case((spec, case["messages"], sorted(opts.items())), rich,
             labels=[f"style:{spec['style']}", "schema:" + ("inline" if spec["inline"] else "imported"), f"ops:{len(spec['ops'])}"] +
                    (["header"] if any(o["header"] for o in spec["ops"]) else []) + (["fault"] if any(o["fault"] for o in spec["ops"]) else []),
             sample={"wsdl": wsdl[:3000], "request": case["messages"][0]["request"][:800], "options": opts})
    tail = f"\noptions: {opts}\nwsdl:\n{wsdl}" + ("" if spec["inline"] else f"\ntypes.xsd:\n{sources['types.xsd']}")
    with G.Workspace() as ws:
        try:
            uris = ws.write_sources(sources)
            pkg = ws.generate(None, opts, uris=[u for u in uris if u.endswith("service.wsdl")], package=ws.unique_package("c17") + ".gen")
            mods = ws.import_all(pkg)
        except Exception as e:
            return [Failure(exc_sig("generate-or-import", e), f"{type(e).__name__}: {e}{tail}", case)]
        services = {}
        for m in mods.values():
            for obj in vars(m).values():
                if isinstance(obj, type) and all(hasattr(obj, a) for a in ("style", "location", "transport", "input")):
                    services[obj.__name__] = obj
        caller_headers = {"X-Trace": "1"}
        for op, msg in zip(spec["ops"], case["messages"]):
            svc = [s for s in services.values() if s.__name__.lower().endswith(op["name"].lower().replace("_", ""))]
            if len(svc) != 1:
                return [Failure("service-description-missing", f"operation {op['name']}: {len(svc)} service classes among {sorted(services)}{tail}", case)]
            svc = svc[0]
            got = {"style": svc.style, "location": svc.location, "transport": svc.transport, "soap_action": getattr(svc, "soap_action", None) or None}
            want = {"style": op.get("style") or spec["style"], "location": spec["location"], "transport": HTTP, "soap_action": op["action"]}
            if got != want or not hasattr(svc, "output"):
                return [Failure("service-description-wrong", f"operation {op['name']}: {got} != {want}{tail}", case)]
            ctx = XmlContext()
            strict = ParserConfig(fail_on_unknown_properties=True, fail_on_unknown_attributes=True, fail_on_converter_warnings=True)
            try:
                with warnings.catch_warnings():
                    warnings.simplefilter("error")
                    req = XmlParser(context=ctx, config=strict).from_string(msg["request"], svc.input)
            except Exception as e:
                return [Failure(exc_sig("prescribed-request-rejected", e), f"{type(e).__name__}: {e}\noperation {op['name']}\nrequest: {msg['request']}{tail}", case)]
            for kind in ("response", "fault"):
                # alternately a recording Transport and xsdata's own DefaultTransport over a recording session (fault = HTTP 500)
                use_default = (spec["ops"].index(op) + (kind == "fault")) % 2 == 1
                rec = FakeSession(500 if kind == "fault" else 200, msg[kind].encode()) if use_default else Recorder(msg[kind].encode())
                try:
                    # one caller-owned headers dict serves every call of the case
                    transport = DefaultTransport(session=rec) if use_default else rec
                    res = Client(config=Client.from_service(svc).config, transport=transport).send(req, headers=caller_headers)
                except Exception as e:
                    return [Failure(exc_sig(f"client-send-raise/{kind}", e), f"{type(e).__name__}: {e}\noperation {op['name']}\nresponse: {msg[kind]}{tail}", case)]
                if len(rec.calls) != 1:
                    return [Failure("client-posted-not-once", f"{len(rec.calls)} posts{tail}", case)]
                url, data, headers = rec.calls[0]
                low = {k.lower(): v for k, v in headers.items()}
                if caller_headers != {"X-Trace": "1"}:
                    return [Failure("client-mutated-caller-headers", f"the caller's headers dict became {caller_headers}{tail}", case)]
                if url != spec["location"] or low.get("content-type") != "text/xml" or low.get("soapaction") != op["action"] or low.get("x-trace") != "1":
                    return [Failure("client-post-wrong-target-or-headers", f"url={url!r} headers={headers}\nwanted {spec['location']!r}, text/xml, {op['action']!r}{tail}", case)]
                try:
                    if canon(data) != canon(msg["request"]):
                        return [Failure("request-payload-differs", f"{I.diff(canon(msg['request']), canon(data))}\nprescribed: {msg['request']}\nposted:     {data}{tail}", case)]
                except Exception as e:
                    return [Failure(exc_sig("request-payload-unreadable", e), f"{type(e).__name__}: {e}\nposted: {data!r}{tail}", case)]
                if not isinstance(res, svc.output):
                    return [Failure("response-not-output-class", f"{type(res).__name__} is not {svc.output.__name__}{tail}", case)]
                try:
                    from xsdata.formats.dataclass.serializers import XmlSerializer
                    back = XmlSerializer(context=ctx).render(res)
                    if canon(back) != canon(msg[kind]):
                        return [Failure(f"{kind}-not-carried", f"{I.diff(canon(msg[kind]), canon(back))}\nreceived:      {msg[kind]}\nre-serialized: {back}{tail}", case)]
                except Exception as e:
                    return [Failure(exc_sig(f"{kind}-reserialize-raise", e), f"{type(e).__name__}: {e}\nreceived: {msg[kind]}{tail}", case)]
    return []


def plan(tier, seed):
    n, nsh = {"quick": (1600, 16), "thorough": (40000, 64)}[tier]
    return [{"n": n // nsh, "seed": seed * 1000 + i} for i in range(nsh)]


def run_shard(shard, col):
    hyp_campaign(cases(), execute, shard["n"], shard["seed"], col, shrink_budget_s=40, max_shrinks=4)


def replay_case(case):
    return list(execute(case, Collector()) or ())
