"""C19 - a shared binding context is safe under concurrent use (DESIGN §C19).

The harness owns the schedule: worker threads are real threads, but only the one holding the token runs; every
*line* executed inside the anchored modules (context.py, the type/namespace lookups of models/elements.py, the
parser entry points of parsers/bases.py) is a yield point at which the scheduler may hand the token to another
thread, as dictated by a generated schedule.  No source hooks: the yield points are installed with threading.settrace.
"""
import itertools
import sys
import threading

from hypothesis import strategies as st

from checks import c14
from vlib.core import Collector, Failure, hyp_campaign

ID = "C19"
LEVEL = "exploration"
RULE = ("2-4 threads each run a short generated program of parse / serialize / decode operations (C14's operation pool: "
        "first use of a class on a cold context, metadata built with a caller-supplied python namespace (SerializerConfig.globalns), xsi:type lookups, parsing and JSON decoding without a target class, wildcard "
        "name matching, importing a new model module) against ONE shared XmlContext and shared parser/serializer instances, "
        "cold or warmed up. A cooperative scheduler serialises the threads and switches between them only at yield points = "
        "every executed line of xsdata/formats/dataclass/context.py that reads or writes the shared caches, every line of the methods of models/elements.py and parsers/nodes/union.py, of XmlVar.match_namespace / the find_* lookups of "
        "models/elements.py and NodeParser.parse/start of parsers/bases.py. Schedules: (a) for a fixed set of 2-thread "
        "program pairs EVERY single preemption (each yield point of either thread) is explored; (b) Hypothesis draws programs "
        "and schedules with up to 4 preemptions (PCT style positions over the dynamic yield-point index); (c) a free-running "
        "16-thread stress run (nothing is concluded from its silence). Oracle: every operation's outcome (value by structural "
        "equality or exception type) equals its outcome when run alone on fresh instances; no thread dies with another "
        "exception. Non-trivial = at least one preemption happened inside an anchored function while another thread was also "
        "inside one; distinct by (programs, warm-up, schedule).")
ASSUMPTIONS = [
    "interleavings are explored at line granularity inside the anchored modules only; preemption inside C code or inside other "
    "modules is not modelled",
    "operations and models are those of the C14 pool; the reference outcome is computed sequentially on fresh instances",
]

TARGET_SUFFIXES = ("xsdata/formats/dataclass/context.py",)
TARGET_FUNCS = {("xsdata/formats/dataclass/models/elements.py", n) for n in
                ("match_namespace", "_match_namespace", "find_children", "find_wildcard", "find_choice", "find_by_namespace")}
TARGET_FUNCS |= {("xsdata/formats/dataclass/parsers/bases.py", n) for n in ("parse", "start", "find_root_clazz")}
TARGET_FUNCS |= {("xsdata/formats/dataclass/parsers/dict.py", n) for n in ("detect_type", "bind_best_dataclass", "verify_type")}


import linecache  # noqa: E402
import re  # noqa: E402

SHARED_STATE = re.compile(r"self\.(xsi_cache|cache|sys_modules|subclass_cache)|namespace_matches|self\.ns_map|cache_key")
_yield_line = {}


def is_yield_line(code, lineno):
    """Inside context.py only the lines that read or write the shared caches are yield points (the type index is
    built by a loop over every loaded class: yielding on each of its lines would only multiply equivalent schedules)."""
    key = (code.co_filename, lineno)
    r = _yield_line.get(key)
    if r is None:
        fn = code.co_filename.replace("\\", "/")
        if fn.endswith(TARGET_SUFFIXES):
            r = bool(SHARED_STATE.search(linecache.getline(code.co_filename, lineno)))
        else:
            r = True
        _yield_line[key] = r
    return r


WHOLE_FILES = ("xsdata/formats/dataclass/models/elements.py", "xsdata/formats/dataclass/parsers/nodes/union.py")


def is_target(code):
    fn = code.co_filename.replace("\\", "/")
    if fn.endswith(TARGET_SUFFIXES):
        return True
    if fn.endswith(WHOLE_FILES) and code.co_name not in ("__init__", "<genexpr>", "<setcomp>", "<listcomp>", "__iter__", "default_namespace"):
        return True
    for f, n in TARGET_FUNCS:
        if fn.endswith(f) and code.co_name == n:
            return True
    return False


class Scheduler:
    """Token passing between worker threads; decides at yield points according to `switch_at`:
    {global yield index -> thread to run next}."""

    def __init__(self, nthreads, switch_at):
        self.cv = threading.Condition()
        self.current = 0
        self.finished = [False] * nthreads
        self.count = 0
        self.switch_at = dict(switch_at)
        self.inside = [0] * nthreads           # depth inside anchored functions per thread
        self.effective = 0                      # preemptions that happened while two threads were inside anchored code
        self.trace_len = [0] * nthreads
        self.deadline_hit = False

    def wait_turn(self, me):
        with self.cv:
            while self.current != me:
                if not self.cv.wait(timeout=20):
                    self.deadline_hit = True
                    self.current = me
                    return

    def yield_point(self, me):
        self.trace_len[me] += 1
        idx = self.count
        self.count += 1
        tgt = self.switch_at.get(idx)
        if tgt is None or tgt == me or tgt >= len(self.finished) or self.finished[tgt]:
            return
        if any(self.inside[t] > 0 for t in range(len(self.inside)) if t != me):
            self.effective += 1
        with self.cv:
            self.current = tgt
            self.cv.notify_all()
        self.wait_turn(me)

    def done(self, me):
        with self.cv:
            self.finished[me] = True
            if self.current == me:
                for t, f in enumerate(self.finished):
                    if not f:
                        self.current = t
                        break
            self.cv.notify_all()


def run_schedule(programs, warm, switch_at, stress=False):
    """Run the thread programs under the schedule. -> (per-thread outcome lists, scheduler, crashed threads)"""
    shared = c14.Instances()
    for i in warm:
        c14.do(c14.OPS[i], shared)
    n = len(programs)
    sched = Scheduler(n, switch_at)
    outcomes = [[] for _ in range(n)]
    crashed = {}
    loaded = []
    tls = threading.local()

    def tracer(frame, event, arg):
        if event != "call" or not is_target(frame.f_code):
            return None
        me = getattr(tls, "me", None)
        if me is None:
            return None
        sched.inside[me] += 1

        def local(frame, event, arg):
            if event == "line":
                if is_yield_line(frame.f_code, frame.f_lineno):
                    sched.yield_point(me)
            elif event == "return":
                sched.inside[me] -= 1
            return local
        return local

    def worker(me):
        tls.me = me
        if not stress:
            sys.settrace(tracer)
            sched.wait_turn(me)
        try:
            for i in programs[me]:
                op = c14.OPS[i]
                if op[1] == "import":
                    loaded.append(c14.import_new_module())
                    outcomes[me].append(("ok", None))
                else:
                    outcomes[me].append(c14.do(op, shared))
        except BaseException as e:      # c14.do catches Exception; anything here is a harness problem
            crashed[me] = e
        finally:
            sys.settrace(None)
            if not stress:
                sched.done(me)

    threads = [threading.Thread(target=worker, args=(t,), daemon=True) for t in range(n)]
    for t in threads:
        t.start()
    for t in threads:
        t.join(timeout=60)
    for name in loaded:
        sys.modules.pop(name, None)
    return outcomes, sched, crashed


_ref_cache = {}


def reference(programs):
    """Outcome of every operation when run alone on fresh instances (imports are no-ops for the comparison)."""
    key = repr(programs)
    if key in _ref_cache:
        return _ref_cache[key]
    if len(_ref_cache) > 64:
        _ref_cache.clear()
    out = _ref_cache[key] = []
    for prog in programs:
        out.append([("ok", None) if c14.OPS[i][1] == "import" else c14.do(c14.OPS[i], c14.Instances()) for i in prog])
    return out


def same_value(a, b):
    """Outcome equality without the recorded warnings (warnings.catch_warnings is process-global, not per thread)."""
    if a[0] != b[0]:
        return False
    if a[0] == "err" or a[1] is None or b[1] is None:
        return a[1] == b[1]
    return c14.deep_eq(a[1][0], b[1][0])


def judge(case, outcomes, ref, sched, crashed):
    fails = []
    for t, e in crashed.items():
        fails.append(Failure(f"thread-crashed/{type(e).__name__}", f"thread {t}: {e!r}", case))
    if sched.deadline_hit:
        fails.append(Failure("scheduler-timeout", "a thread waited 20 s for its turn (deadlock in the code under test or the harness)", case))
    for t, (got, want) in enumerate(zip(outcomes, ref)):
        for k, (g, w) in enumerate(zip(got, want)):
            if not same_value(g, w):
                op = c14.OPS[case["programs"][t][k]]
                fails.append(Failure(f"concurrent-differs/{op[1]}/{op[0]}",
                                     f"thread {t} op `{op[0]}` gave {str(g)[:300]} under schedule {case['schedule']} (programs "
                                     f"{[[c14.OPS[i][0] for i in p] for p in case['programs']]}, warm {case['warm']}), alone it gives {str(w)[:300]}", case))
                return fails
        if len(got) != len(want):
            fails.append(Failure("thread-incomplete", f"thread {t} finished {len(got)} of {len(want)} operations", case))
    return fails


def execute(case, col):
    programs, warm = case["programs"], case["warm"]
    switch_at = {int(k): v for k, v in case["schedule"]}
    ref = reference(programs)
    outcomes, sched, crashed = run_schedule(programs, warm, switch_at)
    col.case((programs, warm, case["schedule"]), sched.effective > 0,
             labels=[f"threads={len(programs)}", "cold" if not warm else "warm", f"effective-preemptions={min(sched.effective, 3)}",
                     f"yield-points={'<50' if sched.count < 50 else ('<500' if sched.count < 500 else '>=500')}"],
             sample={"programs": [[c14.OPS[i][0] for i in p] for p in programs], "warm": warm, "schedule": case["schedule"],
                     "yield_points": sched.count})
    return judge(case, outcomes, ref, sched, crashed)


# operations that exercise lazily built shared state
HOT = [i for i, o in enumerate(c14.OPS) if o[1] in ("parse", "json", "dict", "serialize", "serialize-local", "encode-local", "import", "tree")]


@st.composite
def cases(draw):
    n = draw(st.sampled_from([2, 2, 2, 3, 4]))
    programs = [draw(st.lists(st.sampled_from(HOT), min_size=1, max_size=3)) for _ in range(n)]
    warm = draw(st.lists(st.sampled_from(HOT), max_size=2)) if draw(st.booleans()) else []
    k = draw(st.integers(1, 4))
    schedule = sorted((draw(st.one_of(st.integers(0, 60), st.integers(0, 1500))), draw(st.integers(0, n - 1))) for _ in range(k))
    schedule = [[a, b] for a, b in dict(schedule).items()]
    return {"programs": programs, "warm": warm, "schedule": schedule}


def name_idx(name):
    return next(i for i, o in enumerate(c14.OPS) if o[0] == name)


def pairs():
    """Fixed 2-thread program pairs for exhaustive single-preemption exploration."""
    P = name_idx
    auto_b, auto_d = P("parse b1 without class (lxml)"), P("parse d1 without class (native)")
    ja, jd = P("json decode ja without class"), P("json decode Drawing, lenient")
    return [
        ([auto_b], [auto_d], []),
        ([auto_b], [ja], []),
        ([ja], [jd], []),
        ([P("parse ds as Drawing (lxml)")], [P("parse dr as Drawing (native)")], []),
        ([P("parse a1 as A (lxml)")], [P("parse b1 as B (native)")], []),
        ([P("serialize A")], [P("serialize B")], []),
        ([P("parse d1 as Drawing (lxml)")], [P("serialize Drawing")], []),
        ([auto_b], [P("import a new model module"), auto_d], [auto_b]),
        ([ja], [P("import a new model module"), P("parse b1 without class (lxml)")], [ja]),
        ([P("parse d2 as Drawing (native)")], [P("parse d1 as Drawing (lxml)")], [P("parse a1 as A (lxml)")]),
        ([P("dict decode Pick")], [P("json decode Pick, lenient")], []),
        ([P("serialize A")], [P("serialize A")], []),
        ([P("serialize Drawing")], [P("serialize Drawing")], []),
        ([P("parse p1 as Pick, lenient (lxml)")], [P("parse bad value as A, lenient (lxml)")], []),
        ([P("parse p1 as Pick, lenient (lxml)")], [P("parse p1 as Pick, lenient (lxml)")], [P("parse bad value as A, lenient (lxml)")]),
        ([P("parse rootx1 as Shape (lxml)")], [P("parse rootx2 as Vehicle (lxml)")], []),
        # a reader that walks the whole type index (class-less JSON) next to lookups of names no model is bound to (wildcard children)
        ([ja], [P("parse d1 as Drawing (lxml)")], []),
        ([ja], [P("parse d2 as Drawing (native)")], [auto_b]),
        ([ja], [P("parse d1 as Drawing (lxml)")], [auto_b]),
        # cold metadata of one class built by two serializing threads at once
        ([P("serialize Pick with prefix map")], [P("serialize Pick with prefix map")], []),
        ([P("serialize Sched 1")], [P("serialize Sched 2")], []),
        # metadata built with a caller-supplied python namespace (SerializerConfig.globalns) next to builds without one
        ([P("serialize local model through globalns")], [P("parse a1 as A (lxml)")], []),
        ([P("serialize local model through globalns")], [P("serialize B")], []),
        ([P("json encode local model through globalns")], [P("json decode ja as A")], []),
    ]


def single_preemption_cases(pair_index, part, parts, stride):
    a, b, warm = pairs()[pair_index]
    programs = [a, b]
    # dry run: count the yield points of each thread when run one after the other
    _, sched, _ = run_schedule(programs, warm, {})
    n0, total = sched.trace_len[0], sched.count
    k = 0
    # thread 0 preempted at its j-th yield point (thread 1 then runs to completion), and the mirror image
    for j in range(0, n0, stride):
        k += 1
        if k % parts == part:
            yield {"programs": programs, "warm": warm, "schedule": [[j, 1]]}
    for j in range(0, total - n0, stride):
        k += 1
        if k % parts == part:
            # let thread 1 start first: switch at yield 0, then preempt it at its j-th yield point
            yield {"programs": programs, "warm": warm, "schedule": [[0, 1], [j + 1, 0]]}


def stress(col, rounds):
    """Free-running threads (no schedule control); reported, nothing concluded from silence."""
    fails = []
    for r in range(rounds):
        programs = [[HOT[(r * 7 + t * 3 + k) % len(HOT)] for k in range(3)] for t in range(16)]
        ref = reference(programs)
        outcomes, sched, crashed = run_schedule(programs, [], {}, stress=True)
        case = {"programs": programs, "warm": [], "schedule": [], "stress": True}
        col.case(("stress", r), False, labels=["stress-16-threads"])
        for f in judge(case, outcomes, ref, sched, crashed):
            fails.append(Failure("stress/" + f.sig, f.what, case))
    return fails


def plan(tier, seed):
    np_ = len(pairs())
    stride = 1
    shards = [{"pair": i, "part": p, "parts": 2, "stride": stride} for i in range(np_) for p in range(2)]
    n, nsh = {"quick": (400, 3), "thorough": (40000, 16)}[tier]
    shards += [{"n": n // nsh, "seed": seed * 1000 + i} for i in range(nsh)]
    shards += [{"stress": 3 if tier == "quick" else 100}]
    return shards


def run_shard(shard, col):
    if "pair" in shard:
        seen = set()
        for case in single_preemption_cases(shard["pair"], shard["part"], shard["parts"], shard["stride"]):
            for f in execute(case, col):
                if f.sig not in seen:
                    seen.add(f.sig)
                    col.fail(f)
        if shard["stride"] == 1:
            col.exhaustive.append(f"every single preemption of program pair {shard['pair']}")
        return
    if "stress" in shard:
        for f in stress(col, shard["stress"]):
            col.fail(f)
        return
    hyp_campaign(cases(), execute, shard["n"], shard["seed"], col, shrink_budget_s=20, max_shrinks=3)


def replay_case(case):
    if case.get("stress"):
        return []
    return list(execute(case, Collector()) or ())
