"""C12 - code generation is reproducible (DESIGN §C12)."""
import difflib
import json
import os
import shutil
import subprocess
import sys
import tempfile
from pathlib import Path

from hypothesis import strategies as st

from vlib import schemas as S
from vlib.bootstrap import REPO
from vlib.core import Collector, Failure, hyp_campaign

ID = "C12"
LEVEL = "exploration"
RULE = ("Hypothesis draws a source set - an XML Schema from the SchemaSpec generator, a schema whose 3-6 complex types refer to each other in cycles (ring + extra edges, mostly generated with the cluster styles and 5 hash seeds), 2-5 schemas importing each other, 1-3 XML sample documents, or one of the "
        "repository's fixture source sets (XSD, multi-file XSD, WSDL+XSD, DTD, JSON/XML samples) - and a generator configuration. The "
        "set is generated in fresh interpreters through: the API with PYTHONHASHSEED=0 (reference), the API under two other hash "
        "seeds, the API twice in one interpreter, the API after an earlier run in the same interpreter with OTHER settings (every switch flipped, package/module/class/field renaming rules, a namespace-wide package alias), the command line with flags, and the command line with the same configuration "
        "written to a project file, and the command line with --cache twice (cold then warm sources cache). Oracle: every route yields the same outcome and byte-identical files (path by path). "
        "Non-trivial = the reference run wrote at least 2 modules / 1 KB and at least 4 further routes completed; distinct by "
        "fingerprint of (sources, options).")
ASSUMPTIONS = [
    "code generation runs through stand-ins for click/jinja2/toposort and without ruff (DESIGN §1.1); the click stand-in parses the "
    "command line as click documents for the declarations xsdata uses (long options, --x/--no-x flags, explicit destinations)",
    "the command-line spelling of an option set is derived from the GeneratorOutput dataclass metadata (long option names)",
]

DRIVER = str(Path(__file__).resolve().parent.parent / "vlib" / "c12_driver.py")
STYLES = ["filenames", "namespaces", "clusters", "single-package", "namespace-clusters"]
DOCSTYLES = ["reStructuredText", "NumPy", "Google", "Accessible", "Blank"]
FIX = REPO / "tests" / "fixtures"
FIXTURES = {
    "primer": ["primer/order.xsd"], "books": ["books/schema.xsd"], "compound": ["compound/schema.xsd"], "wrapper": ["wrapper/schema.xsd"],
    "docstrings": ["docstrings/schema.xsd"], "annotations": ["annotations/model.xsd", "annotations/units.xsd"],
    "hello": ["hello/hello.wsdl", "hello/hello.xsd"], "calculator": ["calculator/services.wsdl"], "dtd": ["dtd/complete_example.dtd"],
    "series": ["series/samples/show1.json", "series/samples/show2.json"], "stripe": ["stripe/samples/balance.json"],
    "artists": ["artists/art001.xml", "artists/art002.xml", "artists/art003.xml"],
}
# (names ending in Class and the well-known namespaces are what the default substitutions of `xsdata init-config` rewrite)
PLAIN = ["item", "name", "value", "code", "note", "row", "unit", "size", "part", "kind", "entry", "info", "itemClass", "UnitClass"]
URI_SETS = [[None], ["urn:a"], ["urn:a", "urn:b"], ["urn:a", "urn:b", None], ["urn:alpha:one", "urn:alpha:two", "urn:beta:two", "urn:main"],
            ["http://www.w3.org/1999/xlink", "urn:a"], ["http://example.com/a", "http://example.com/a/b", "http://example.com/c/b"]]


@st.composite
def options(draw):
    o = {"structure_style": draw(st.sampled_from(STYLES)), "compound_fields.enabled": draw(st.booleans()),
         "wrapper_fields": draw(st.booleans()), "unnest_classes": draw(st.booleans()),
         "docstring_style": draw(st.sampled_from(DOCSTYLES)), "relative_imports": draw(st.booleans()),
         "generic_collections": draw(st.booleans()), "max_line_length": draw(st.sampled_from([60, 79, 120])),
         "format.frozen": draw(st.booleans()), "format.slots": draw(st.booleans()), "format.eq": draw(st.booleans()),
         "format.repr": draw(st.booleans()), "format.unsafe_hash": draw(st.booleans()), "include_header": False}
    if o["compound_fields.enabled"]:
        o["compound_fields.force_default_name"] = draw(st.booleans())
        o["compound_fields.max_name_parts"] = draw(st.sampled_from([2, 3, 5]))
    return o


@st.composite
def xml_doc(draw, names, uris):
    from lxml import etree
    budget = [draw(st.integers(4, 30))]

    def node(depth):
        budget[0] -= 1
        nm = draw(st.sampled_from(names))
        # (one local name may live in several namespaces here: same-named classes imported from several modules get aliases)
        el = etree.Element(S.qn(draw(st.sampled_from(uris)), nm), nsmap={f"p{i}": u for i, u in enumerate(uris) if u} if depth == 0 else None)
        for _ in range(draw(st.integers(0, 2))):
            el.set(draw(st.sampled_from(names)), draw(st.sampled_from(["1", "x", "true", "2001-01-01", "1.5"])))
        kids = draw(st.integers(0, 4)) if depth < 4 else 0
        if kids == 0 or budget[0] <= 0:
            el.text = draw(st.sampled_from([None, "1", "abc", "1.5", "true", "2001-01-01"]))
            return el
        for _ in range(kids):
            if budget[0] > 0:
                el.append(node(depth + 1))
        return el
    return etree.tostring(node(0), encoding="unicode")


NS_POOL = ["http://example.com/alpha/one", "http://example.com/alpha/two", "http://example.com/beta/two", "http://example.com/beta",
           "urn:shop:orders", "urn:shop:common:types", "urn:x", "http://example.com/main/deep/er"]
TYPE_NAMES = ["Item", "Address", "Code", "itemClass", "Party"]
LEAF_TYPES = ["string", "int", "decimal", "date", "boolean"]


@st.composite
def multi_xsd(draw):
    """2-4 leaf schemas, one namespace each, declaring complex types with names from a small pool (so names recur across
    namespaces) and a main schema that imports them all and uses their types."""
    uris = draw(st.lists(st.sampled_from(NS_POOL), min_size=2, max_size=4, unique=True))
    files, uses = {}, []
    for i, ns in enumerate(uris):
        names = draw(st.lists(st.sampled_from(TYPE_NAMES), min_size=1, max_size=3, unique=True))
        body = []
        for tn in names:
            fields = draw(st.lists(st.sampled_from(PLAIN[:12]), min_size=1, max_size=3, unique=True))
            els = "".join(f'<xs:element name="{f}" type="xs:{draw(st.sampled_from(LEAF_TYPES))}"{draw(st.sampled_from(["", " minOccurs=\"0\"", " maxOccurs=\"unbounded\""]))}/>'
                          for f in fields)
            body.append(f'<xs:complexType name="{tn}"><xs:sequence>{els}</xs:sequence></xs:complexType>')
            uses.append((i, tn))
        files[f"leaf{i}.xsd"] = (f'<?xml version="1.0" encoding="UTF-8"?>\n<xs:schema xmlns:xs="http://www.w3.org/2001/XMLSchema" targetNamespace="{ns}" '
                                 f'elementFormDefault="qualified">{"".join(body)}</xs:schema>\n')
    main_ns = draw(st.sampled_from(["http://example.com/main", "urn:main", NS_POOL[0] + "/main"]))
    picked = draw(st.lists(st.sampled_from(uses), min_size=2, max_size=min(6, len(uses)), unique=True)) if len(uses) >= 2 else uses
    decl = "".join(f' xmlns:n{i}="{ns}"' for i, ns in enumerate(uris))
    imports = "".join(f'<xs:import namespace="{ns}" schemaLocation="leaf{i}.xsd"/>' for i, ns in enumerate(uris))
    els = "".join(f'<xs:element name="e{k}" type="n{i}:{tn}"/>' for k, (i, tn) in enumerate(picked))
    files["main.xsd"] = (f'<?xml version="1.0" encoding="UTF-8"?>\n<xs:schema xmlns:xs="http://www.w3.org/2001/XMLSchema"{decl} targetNamespace="{main_ns}" '
                         f'elementFormDefault="qualified">{imports}<xs:element name="Basket"><xs:complexType><xs:sequence>{els}</xs:sequence>'
                         f'</xs:complexType></xs:element></xs:schema>\n')
    return files


@st.composite
def cyclic_xsd(draw):
    """3-6 complex types whose references form one or more cycles (a ring plus extra edges), a root element using some of
    them: what ends up in one module / cluster, and under which name, must not depend on set iteration order."""
    n = draw(st.integers(3, 6))
    names = draw(st.lists(st.sampled_from(["Company", "Department", "Team", "Person", "Item", "Address", "Code", "Party", "Order", "Unit"]),
                          min_size=n, max_size=n, unique=True))
    ring = draw(st.integers(2, n))
    edges = {(i, (i + 1) % ring) for i in range(ring)} | {(i, draw(st.integers(0, n - 1))) for i in range(ring, n)}
    edges |= set(draw(st.lists(st.tuples(st.integers(0, n - 1), st.integers(0, n - 1)), max_size=4)))
    ns = draw(st.sampled_from(NS_POOL))
    body = []
    for i, tn in enumerate(names):
        els = "".join(f'<xs:element name="{names[j].lower()}" type="t:{names[j]}" minOccurs="0"{" maxOccurs=\"unbounded\"" if (i + j) % 2 else ""}/>'
                      for (a, j) in sorted(edges) if a == i)
        body.append(f'<xs:complexType name="{tn}"><xs:sequence><xs:element name="id" type="xs:{draw(st.sampled_from(LEAF_TYPES))}"/>{els}</xs:sequence></xs:complexType>')
    roots = "".join(f'<xs:element name="{names[i].lower()}Root" type="t:{names[i]}"/>' for i in sorted(draw(st.sets(st.integers(0, n - 1), min_size=1, max_size=2))))
    return {"schema.xsd": (f'<?xml version="1.0" encoding="UTF-8"?>\n<xs:schema xmlns:xs="http://www.w3.org/2001/XMLSchema" xmlns:t="{ns}" targetNamespace="{ns}" '
                           f'elementFormDefault="qualified">{"".join(body)}{roots}</xs:schema>\n')}


@st.composite
def cases(draw, family):
    opts = draw(options())
    hseeds = draw(st.lists(st.sampled_from([1, 2, 3, 7, 42, 1234, 99999, 4294967295]), min_size=2, max_size=2, unique=True))
    if family == "xsd":
        spec = draw(S.schema_specs(S.Opts(name_pool=S.PLAIN_NAMES + ["itemClass", "UnitClass"], components=True)))
        return {"family": "xsd", "spec": spec, "options": opts, "hash_seeds": hseeds}
    if family == "multi-xsd":
        if draw(st.booleans()):
            opts["structure_style"] = "namespaces"
        return {"family": "multi-xsd", "files": draw(multi_xsd()), "options": opts, "hash_seeds": hseeds}
    if family == "cyclic-xsd":
        opts["structure_style"] = draw(st.sampled_from(["clusters", "namespace-clusters", "clusters", opts["structure_style"]]))
        return {"family": "cyclic-xsd", "files": draw(cyclic_xsd()), "options": opts, "hash_seeds": hseeds}
    if family == "xml":
        names = draw(st.lists(st.sampled_from(PLAIN), min_size=3, max_size=8, unique=True))
        uris = draw(st.sampled_from(URI_SETS))
        docs = [draw(xml_doc(names, uris)) for _ in range(draw(st.integers(1, 3)))]
        return {"family": "xml", "docs": docs, "options": opts, "hash_seeds": hseeds}
    return {"family": "fixture", "fixture": draw(st.sampled_from(sorted(FIXTURES))), "options": opts, "hash_seeds": hseeds}


def sources_of(case):
    if case["family"] == "xsd":
        return {"schema.xsd": S.render_xsd(case["spec"])}
    if case["family"] in ("multi-xsd", "cyclic-xsd"):
        return dict(case["files"])
    if case["family"] == "xml":
        return {f"sample{i}.xml": d for i, d in enumerate(case["docs"])}
    return {Path(p).name: (FIX / p).read_text(encoding="utf-8") for p in FIXTURES[case["fixture"]]}


def other_options(opts):
    """The settings of the run that precedes the judged one on the 'api-after-other' route: other renaming rules for
    packages / modules / classes, the opposite of every boolean switch."""
    o = {k: (not v if isinstance(v, bool) and k != "include_header" else v) for k, v in opts.items()}
    o["substitutions"] = [["package", "^.+$", "other.place"], ["package", "a", "aa"], ["package", "e", "o"], ["module", "e", "ee"], ["class", "e", "E"], ["field", "e", "ee"]]
    return o


def run_route(route, hash_seed, sources, opts, workdir):
    job = {"route": route, "dir": workdir, "sources": sources, "options": opts, "package": "gen.pkg"}
    if route == "api-after-other":
        job["other_options"] = other_options(opts)
    env = {k: v for k, v in os.environ.items() if k not in ("PYTHONHASHSEED", "VERIF_BOOTSTRAPPED")}
    env["PYTHONHASHSEED"] = str(hash_seed)
    env["TMPDIR"] = os.path.join(workdir, "tmp")          # the sources cache lives in the temp dir: private per run
    os.makedirs(env["TMPDIR"], exist_ok=True)
    r = subprocess.run([sys.executable, DRIVER], input=json.dumps(job), capture_output=True, text=True, env=env, timeout=600)
    if r.returncode != 0 or not r.stdout.strip().startswith("{"):
        raise RuntimeError(f"driver failed for route {route}: rc={r.returncode}\n{r.stderr[-2000:]}")
    return json.loads(r.stdout)


def outcome(res):
    return "generated" if res["error"] is None else res["error"].split(":")[0]


def execute(case, col):
    sources, opts = sources_of(case), case["options"]
    if case["family"] == "xsd":
        from lxml import etree
        try:
            etree.XMLSchema(etree.fromstring(sources["schema.xsd"].encode()))
        except Exception:
            col.reject()
            return []
    base = tempfile.mkdtemp(prefix="c12_")
    fails = []
    try:
        ref = run_route("api", 0, sources, opts, os.path.join(base, "ref"))
        routes = [("api", case["hash_seeds"][0]), ("api", case["hash_seeds"][1]), ("api-twice", 0), ("api-after-other", 0), ("cli", case["hash_seeds"][0]),
                  ("cli-config", case["hash_seeds"][1]), ("cli-cache-twice", case["hash_seeds"][0])]
        if case["family"] in ("multi-xsd", "cyclic-xsd"):
            routes += [("api", 5), ("api", 11), ("api", 77)]
        if any(n.endswith(".wsdl") for n in sources):
            routes = [r for r in routes if r[0] != "cli-cache-twice" or case.get("force_cache_route")]     # recorded finding: warm cache + WSDL
        done = 0
        for i, (route, hs) in enumerate(routes):
            res = run_route(route, hs, sources, opts, os.path.join(base, f"r{i}"))
            done += 1
            label = f"{route}/hashseed={hs}"
            if outcome(res) != outcome(ref):
                fails.append(Failure(f"outcome-differs/{route}", f"reference (api, hash seed 0): {ref['error']}\n{label}: {res['error']}\noptions: {opts}\n"
                                     f"sources: {json.dumps(sources)[:3000]}", case))
                break
            if res["files"] != ref["files"]:
                names = sorted(set(res["files"]) | set(ref["files"]))
                bad = next(n for n in names if res["files"].get(n) != ref["files"].get(n))
                diff = "\n".join(list(difflib.unified_diff((ref["files"].get(bad) or "").splitlines(), (res["files"].get(bad) or "").splitlines(),
                                                          "reference", label, lineterm=""))[:60])
                kind = "hash-seed" if route == "api" else route
                fails.append(Failure(f"files-differ/{kind}", f"{bad} differs between api/hashseed=0 and {label}\n{diff}\noptions: {opts}\n"
                                     f"sources: {json.dumps(sources)[:3000]}", case))
                break
        size = sum(len(v) for v in ref["files"].values())
        col.case((sorted(sources.items()), sorted(opts.items())), len(ref["files"]) >= 3 and size >= 1000 and done >= 4,
                 labels=[f"family:{case['family']}", f"outcome:{outcome(ref)}", f"style:{opts['structure_style']}"] +
                        ([f"fixture:{case['fixture']}"] if case["family"] == "fixture" else []),
                 sample={"family": case["family"], "fixture": case.get("fixture"), "options": opts, "files": sorted(ref["files"]), "bytes": size,
                         "routes": [f"{r}/hashseed={h}" for r, h in routes], "outcome": outcome(ref)})
    finally:
        shutil.rmtree(base, ignore_errors=True)
    return fails


def plan(tier, seed):
    per = {"quick": 8, "thorough": 80}[tier]
    nsh = {"quick": 4, "thorough": 16}[tier]
    return [{"family": fam, "n": per, "seed": seed * 1000 + 10 * i + k} for k, fam in enumerate(("xsd", "xml", "fixture", "multi-xsd", "cyclic-xsd")) for i in range(nsh)]


def run_shard(shard, col):
    hyp_campaign(cases(shard["family"]), execute, shard["n"], shard["seed"], col, shrink_budget_s=60, max_shrinks=2)


def replay_case(case):
    return list(execute(case, Collector()) or ())
