#!/venv/bin/python
"""Single entry point:  run.py <ID> [--tier quick|thorough] [--replay PATH]
                        run.py --setup

exit 0: property held on everything explored (known findings printed as KNOWN-FINDING lines)
exit 1: at least one unlisted violation; `VIOLATION property=<id> replay=<path>` on stdout
exit 2: harness error (never a violation)
"""
import argparse
import importlib
import os
import sys
from pathlib import Path

sys.path.insert(0, str(Path(__file__).resolve().parent))
from vlib import bootstrap  # noqa: E402


def main():
    ap = argparse.ArgumentParser()
    ap.add_argument("prop", nargs="?")
    ap.add_argument("--tier", default=os.environ.get("VERIF_TIER") or "quick", choices=["quick", "thorough"])
    ap.add_argument("--replay")
    ap.add_argument("--setup", action="store_true")
    a = ap.parse_args()
    shims = bootstrap.bootstrap()
    if a.setup:
        from vlib import selftest
        return selftest.main(shims)
    if not a.prop:
        ap.error("property id required")
    try:
        seed = int(os.environ.get("VERIF_SEED", "1") or "1")
    except ValueError:
        seed = 1
    from vlib import core
    try:
        mod = importlib.import_module(f"checks.{a.prop.lower()}")
    except ModuleNotFoundError as e:
        bootstrap.harness_error(f"no check for {a.prop}: {e}")
    if a.replay:
        return core.main_replay(mod, a.replay)
    return core.main_check(mod, a.tier, seed)


if __name__ == "__main__":
    try:
        rc = main()
    except SystemExit:
        raise
    except BaseException:
        import traceback
        traceback.print_exc()
        rc = 2
    sys.stdout.flush()
    sys.exit(rc)
