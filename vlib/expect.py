"""Independent reading of the binding metadata (DESIGN §C03).

From a ModelSpec and an encoded instance - never from xsdata's XmlMeta/XmlVar - compute the XML document the
documented class and field metadata prescribe, as an expected tree:

    Node = {"q": qname, "attrs": {qname: Leaf}, "xsi_type": (uri|None, local) | None, "nil": bool,
            "children": [Node | Leaf], "any": bool}
    Leaf = {"v": encoded value, "fmt": format | None, "tokens": bool}   (compared *by value*, see leaf_matches)
         | {"raw": str}                                                (generic content: literal text)

and `compare(expected, lxml element)` which checks names, namespaces, nesting, order, xsi:nil/xsi:type and values.
The rules are those of docs/models/*.md and docs/data_binding/xml_serializing.md; every rule carries its source.
"""
import base64
import datetime
import re
from decimal import Decimal
from fractions import Fraction

from vlib import xsdref as X
from vlib.codec import dec
from vlib.models import PRIMS, all_fields
from vlib.namegen import GENS

XSI = "http://www.w3.org/2001/XMLSchema-instance"
XSI_TYPE = "{%s}type" % XSI
XSI_NIL = "{%s}nil" % XSI


def qn(ns, local):
    return "{%s}%s" % (ns, local) if ns else local


# ---------------------------------------------------------------------------
# class level


def class_local_name(c):
    """docs/models/classes.md: Meta.name, else the element name generator applied to the class name
    (Meta is not inherited, so only the class's own Meta counts)."""
    m = c["meta"]
    if m.get("name"):
        return m["name"]
    gen = GENS.get(m.get("elem_gen"))
    return gen(c["name"]) if gen else c["name"]


def class_namespace(c, inherited):
    m = c["meta"]
    ns = m["namespace"] if "namespace" in m else inherited
    return ns or None


def target_qname(spec, cid):
    """Type name used in xsi:type: target_namespace | module __NAMESPACE__ | Meta.namespace (docs/models/classes.md)."""
    c = spec["classes"][cid]
    m = c["meta"]
    ns = m.get("target_namespace")
    if ns is None:
        ns = spec.get("ns")
    if ns is None:
        ns = m.get("namespace")
    return (ns or None, class_local_name(c))


def field_local_name(c, f, kind):
    if f.get("name"):
        return f["name"]
    gen = GENS.get(c["meta"].get("attr_gen" if kind == "Attribute" else "elem_gen"))
    return gen(f["py"]) if gen else f["py"]


def fields_in_order(spec, cid, class_ns):
    """(field, namespace contributed by the declaring class): base class fields first (dataclass order); a field
    declared in a base class that has its own Meta takes that Meta's namespace."""
    chain = []
    c = cid
    while c is not None:
        chain.append(c)
        c = spec["classes"][c]["base"]
    out = []
    for owner in reversed(chain):
        oc = spec["classes"][owner]
        ns = class_ns
        if owner != cid and oc["meta"]:
            ns = (oc["meta"]["namespace"] if "namespace" in oc["meta"] else class_ns) or None
        for f in oc["fields"]:
            out.append((f, ns))
    return out


# ---------------------------------------------------------------------------
# values


def is_none(v):
    return v is None


def seq_items(v):
    """encoded list or tuple -> python list of encoded items."""
    if isinstance(v, dict) and "tup" in v:
        return v["tup"]
    return v


def fmt_of(types):
    for t in types:
        if "p" in t and PRIMS[t["p"]][2].get("format"):
            return PRIMS[t["p"]][2]["format"]
    return None


def equals_default(spec, f, value):
    """python equality with the field default (docs: ignore_default_attributes skips optional attributes whose
    value equals the default)."""
    if "default_tokens" in f:
        try:        # python equality item by item (Decimal('0.000') == Decimal('0'))
            return [dec_enum(spec, x) for x in seq_items(value)] == [dec_enum(spec, x) for x in f["default_tokens"]]
        except Exception:
            return False
    if "default" in f:
        a, b = dec_enum(spec, value), dec_enum(spec, f["default"])
        try:
            return a == b
        except Exception:
            return False
    if f["card"] == "opt":
        return value is None
    return False


def dec_enum(spec, v):
    if isinstance(v, dict) and "enum" in v:
        e = spec["enums"][v["enum"][0]]
        return ("enum", v["enum"][0], v["enum"][1])
    return dec(v) if not (isinstance(v, dict) and "obj" in v) else v


def enum_value(spec, v):
    """encoded enum member -> encoded underlying value."""
    e = spec["enums"][v["enum"][0]]
    return e["values"][int(v["enum"][1][1:])]


# ---------------------------------------------------------------------------
# expected tree


class Reader:
    def __init__(self, spec, ignore_default_attributes=False):
        self.spec = spec
        self.ignore_defaults = ignore_default_attributes
        self.path = []          # where in the encoded instance the value being read lives: [py, idx, py, ...]

    def leaf(self, v, types=None, tokens=False, fmt=None):
        return {"v": v, "fmt": fmt if fmt is not None else (fmt_of(types) if types else None), "tokens": tokens,
                "types": types, "path": list(self.path)}

    def document(self, inst):
        cid = inst["obj"]
        c = self.spec["classes"][cid]
        ns = class_namespace(c, None)
        return self.instance(inst, qn(ns, class_local_name(c)), parent_ns=None, field_nillable=False, declared=None)

    def instance(self, inst, qname, parent_ns, field_nillable, declared):
        spec = self.spec
        cid = inst["obj"]
        c = spec["classes"][cid]
        class_ns = class_namespace(c, parent_ns)
        node = {"q": qname, "attrs": {}, "xsi_type": None, "nil": False, "children": [], "any": False, "cid": cid}
        base_path = list(self.path)
        if declared is not None and cid != declared:
            node["xsi_type"] = target_qname(spec, cid)          # docs: derived instances carry xsi:type
        fl = fields_in_order(spec, cid, class_ns)
        # attributes
        for f, decl_ns in fl:
            v = inst["kw"].get(f["py"])
            if f["kind"] == "Attribute":
                if v is None:
                    continue
                items = seq_items(v)
                if f.get("tokens") and not items:
                    continue
                if self.ignore_defaults and not f.get("required") and f["card"] != "one" and equals_default(spec, f, v):
                    continue
                name = qn(f.get("namespace") or None, field_local_name(c, f, "Attribute"))
                self.path = base_path + [f["py"]]
                node["attrs"][name] = self.leaf(items if f.get("tokens") else v, f["types"], bool(f.get("tokens")))
            elif f["kind"] == "Attributes":
                for k, val in (v or {"map": []})["map"]:
                    node["attrs"][k] = {"raw": val}
        # content, in field order with sequence groups interleaved (docs/models/fields.md `sequence`)
        content = [(f, ns) for f, ns in fl if f["kind"] in ("Element", "Elements", "Wildcard", "Text")]
        i = 0
        while i < len(content):
            f, decl_ns = content[i]
            seq = f.get("sequence")
            if seq is None:
                self.path = base_path + [f["py"]]
                self.field(node, c, f, decl_ns, inst["kw"].get(f["py"]), class_ns)
                i += 1
                continue
            j = i
            while j < len(content) and content[j][0].get("sequence") == seq:
                j += 1
            group = content[i:j]
            i = j
            rnd = 0
            while True:
                progressed = False
                for g, gns in group:
                    v = inst["kw"].get(g["py"])
                    if g["card"] == "list" and not (g.get("tokens") == 1):
                        items = seq_items(v) or []
                        if rnd < len(items):
                            progressed = True
                            self.path = base_path + [g["py"], rnd]
                            self.single(node, c, g, gns, items[rnd], class_ns)
                    elif rnd == 0:
                        progressed = True
                        self.path = base_path + [g["py"]]
                        self.field(node, c, g, gns, v, class_ns)
                if not progressed:
                    break
                rnd += 1
        # xsi:nil (docs/models/fields.md `nillable`, classes.md Meta.nillable): the element is present without
        # meaningful content
        if (field_nillable or c["meta"].get("nillable")) and not node["children"]:
            node["nil"] = True
        self.path = base_path
        return node

    # one field --------------------------------------------------------------
    def field(self, node, c, f, decl_ns, v, class_ns):
        kind = f["kind"]
        if kind == "Text":
            if v is None:
                return
            items = seq_items(v)
            if f.get("tokens"):
                if items:
                    node["children"].append(self.leaf(items, f["types"], True))
                return
            node["children"].append(self.leaf(v, f["types"]))
            return
        if kind == "Wildcard":
            if v is None:
                return
            if f["card"] == "list":
                for item in seq_items(v):
                    self.generic(node, item)
            else:
                self.generic(node, v)
            return
        if kind == "Elements":
            if v is None:
                return
            items = seq_items(v) if f["card"] == "list" else [v]
            base = list(self.path)
            for k, item in enumerate(items):
                self.path = base + [k] if f["card"] == "list" else base
                self.choice(node, c, f, decl_ns, item, class_ns)
            return
        # Element
        target = node
        if v is None and not f.get("nillable"):
            return
        if f.get("wrapper"):
            wns = (f["namespace"] if "namespace" in f else decl_ns) or None
            target = {"q": qn(wns, f["wrapper"]), "attrs": {}, "xsi_type": None, "nil": False, "children": [], "any": False, "cid": None, "wrapper": True}
            node["children"].append(target)
        base = list(self.path)
        if f.get("tokens") == 2:
            for k, inner in enumerate(seq_items(v)):
                self.path = base + [k]
                self.single(target, c, f, decl_ns, inner, class_ns)
        elif f.get("tokens") == 1:
            self.single(target, c, f, decl_ns, v, class_ns)
        elif f["card"] == "list":
            for k, item in enumerate(seq_items(v)):
                self.path = base + [k]
                self.single(target, c, f, decl_ns, item, class_ns)
        else:
            self.single(target, c, f, decl_ns, v, class_ns)

    def single(self, node, c, f, decl_ns, v, class_ns, name=None, ns_src=None):
        """One element occurrence of field/choice f holding value v."""
        src = ns_src if ns_src is not None else f
        ens = (src["namespace"] if "namespace" in src else decl_ns) or None
        q = qn(ens, name or field_local_name(c, f, "Element"))
        types = src["types"] if ns_src is not None else f["types"]
        tokens = bool(src.get("tokens"))
        nillable = bool(src.get("nillable"))
        if isinstance(v, dict) and "obj" in v and isinstance(v["obj"], int):
            declared = types[0]["c"] if len(types) == 1 and "c" in types[0] else None
            if declared is None:
                declared = v["obj"] if any(t.get("c") == v["obj"] for t in types) else next(t["c"] for t in types if "c" in t)
            # the child class inherits the namespace of this class when it has none of its own
            node["children"].append(self.instance(v, q, class_ns, nillable, declared))
            return
        el = {"q": q, "attrs": {}, "xsi_type": None, "nil": False, "children": [], "any": False, "cid": None}
        if tokens:
            items = seq_items(v) if v is not None else []
            if items:
                el["children"].append(self.leaf(items, types, True))
            elif nillable:
                el["nil"] = True
            else:
                return
        elif v is None:
            if not nillable:
                return
            el["nil"] = True
        else:
            el["children"].append(self.leaf(v, types))
        node["children"].append(el)

    def choice(self, node, c, f, decl_ns, item, class_ns):
        """docs/models/fields.md Elements: the choice is inferred from the actual value type."""
        spec = self.spec
        ch = None
        if isinstance(item, dict) and "obj" in item and isinstance(item["obj"], int):
            for cand in f["choices"]:
                if any(t.get("c") == item["obj"] for t in cand["types"]):
                    ch = cand
                    break
            if ch is None:      # a subclass of a choice type
                for cand in f["choices"]:
                    for t in cand["types"]:
                        if "c" in t and _is_subclass(spec, item["obj"], t["c"]):
                            ch = cand
                            break
                    if ch:
                        break
        else:
            kind = value_kind(spec, item)
            for cand in f["choices"]:
                if bool(cand.get("tokens")) != (kind[0] == "tokens"):
                    continue
                k = kind[1] if kind[0] == "tokens" else kind
                if any(type_kind(t) == k for t in cand["types"]):
                    ch = cand
                    break
        if ch is None:
            raise LookupError(f"reference reader: no choice for {item!r}")
        self.single(node, c, f, decl_ns, item, class_ns, name=ch["name"], ns_src=ch)

    def generic(self, node, item):
        """docs/data_binding/xml_serializing.md: AnyElement trees are written as they are."""
        if isinstance(item, str):
            node["children"].append({"raw": item})
            return
        kw = item["kw"]
        el = {"q": kw["qname"], "attrs": {k: {"raw": v} for k, v in kw["attributes"]["map"]}, "xsi_type": None,
              "nil": False, "children": [], "any": True, "cid": None}
        if kw.get("text"):
            el["children"].append({"raw": kw["text"]})
        for ch in kw["children"]:
            self.generic(el, ch)
        node["children"].append(el)
        if kw.get("tail"):
            node["children"].append({"raw": kw["tail"]})


def _is_subclass(spec, cid, base):
    while cid is not None:
        if cid == base:
            return True
        cid = spec["classes"][cid]["base"]
    return False


def type_kind(t):
    if "e" in t:
        return ("enum", t["e"])
    if "c" in t:
        return ("class", t["c"])
    return ("prim", PRIMS[t["p"]][0])


def value_kind(spec, v):
    """Python type family of an encoded value (what the serializer can see)."""
    if isinstance(v, dict):
        if "enum" in v:
            return ("enum", v["enum"][0])
        if "tup" in v:
            items = v["tup"]
            return ("tokens", value_kind(spec, items[0]) if items else None)
        key = next(iter(v))
        return ("prim", {"f": "float", "dec": "Decimal", "b": "bytes", "qn": "QName", "xd": "XmlDate", "xt": "XmlTime",
                         "xdt": "XmlDateTime", "dur": "XmlDuration", "per": "XmlPeriod", "dt": "datetime.datetime",
                         "d": "datetime.date"}[key])
    if isinstance(v, list):
        return ("tokens", value_kind(spec, v[0]) if v else None)
    if isinstance(v, bool):
        return ("prim", "bool")
    if isinstance(v, int):
        return ("prim", "int")
    if isinstance(v, str):
        return ("prim", "str")
    raise TypeError(v)


# ---------------------------------------------------------------------------
# comparison with the real document


def resolve_qname(text, nsmap):
    text = text.strip(X.WS)
    if ":" in text:
        p, _, l = text.partition(":")
        if p not in nsmap:
            return ("?undeclared:" + p, l)
        return (nsmap[p], l)
    return (nsmap.get(None), text)


def atom_matches(spec, v, text, nsmap, fmt):
    """Does `text` denote the encoded value v (by value, through the reference lexical model)?"""
    if isinstance(v, dict) and "enum" in v:
        return atom_matches(spec, enum_value(spec, v), text, nsmap, fmt)
    if isinstance(v, bool):
        return X.recognise("boolean", text) is v
    if isinstance(v, int):
        return X.recognise("integer", text) == v
    if isinstance(v, str):
        return text == v
    key = next(iter(v))
    val = v[key]
    if key == "f":
        f = dec(v)
        r = X.recognise("double", text)
        return r is not X.INVALID and ((r != r and f != f) or (r == f and str(r) == str(f)))
    if key == "dec":
        r = X.recognise("decimal", text)
        return r is not X.INVALID and r == Fraction(Decimal(val))
    if key == "b":
        raw = bytes.fromhex(val)
        if fmt == "base16":
            return X.recognise("hexBinary", text) == raw
        try:
            return base64.b64decode(re.sub(r"\s+", "", text), validate=True) == raw
        except Exception:
            return False
    if key == "qn":
        uri, local = (val[1:].split("}", 1) if val.startswith("{") else (None, val))
        return resolve_qname(text, nsmap) == (uri, local)
    if key in ("xd", "xt", "xdt"):
        r = X.recognise({"xd": "date", "xt": "time", "xdt": "dateTime"}[key], text)
        return r is not X.INVALID and tuple(r) == tuple(val)
    if key == "dur":
        a, b = X.recognise("duration", text), X.recognise("duration", val)
        return a is not X.INVALID and a == b
    if key == "per":
        return X.recognise_period(text)[1] is not X.INVALID and X.recognise_period(text) == X.recognise_period(val)
    if key == "dt":
        return text == datetime.datetime.fromisoformat(val).strftime(fmt)
    if key == "d":
        return text == datetime.date.fromisoformat(val).strftime(fmt)
    raise TypeError(v)


def leaf_matches(spec, leaf, text, nsmap):
    if "raw" in leaf:
        return (text or "") == leaf["raw"]
    if leaf["tokens"]:
        toks = (text or "").split()
        return len(toks) == len(leaf["v"]) and all(atom_matches(spec, v, t, nsmap, leaf["fmt"]) for v, t in zip(leaf["v"], toks))
    return atom_matches(spec, leaf["v"], text or "", nsmap, leaf["fmt"])


def compare(spec, exp, el, path="", element_only_ws=True):
    """None if the real element `el` (lxml) says what the expected node prescribes, else a (key, message) pair."""
    here = f"{path}/{exp['q']}"
    if el.tag != exp["q"]:
        return ("name", f"{path}: element {el.tag} where the metadata prescribes {exp['q']}")
    nsmap = el.nsmap
    actual = dict(el.attrib)
    a_type = actual.pop(XSI_TYPE, None)
    a_nil = actual.pop(XSI_NIL, None)
    if exp["xsi_type"] is not None:
        if a_type is None:
            return ("xsi-type-missing", f"{here}: no xsi:type, expected {exp['xsi_type']}")
        if resolve_qname(a_type, nsmap) != exp["xsi_type"]:
            return ("xsi-type-value", f"{here}: xsi:type={a_type!r} resolves to {resolve_qname(a_type, nsmap)}, expected {exp['xsi_type']}")
    elif a_type is not None and not exp["any"]:
        return ("xsi-type-unexpected", f"{here}: unexpected xsi:type={a_type!r}")
    if exp["nil"] != (a_nil in ("true", "1")):
        return ("xsi-nil", f"{here}: xsi:nil={a_nil!r}, the metadata prescribes nil={exp['nil']}")
    if set(actual) != set(exp["attrs"]):
        return ("attributes", f"{here}: attributes {sorted(actual)} where the metadata prescribes {sorted(exp['attrs'])}")
    for k, leaf in exp["attrs"].items():
        if not leaf_matches(spec, leaf, actual[k], nsmap):
            return ("attribute-value", f"{here}/@{k}: {actual[k]!r} does not denote {leaf.get('v', leaf.get('raw'))!r}")
    # content: sequence of expected items vs actual text/element sequence
    items = []
    if el.text:
        items.append(el.text)
    for ch in el:
        if isinstance(ch.tag, str):
            items.append(ch)
        if ch.tail:
            if items and isinstance(items[-1], str):
                items[-1] += ch.tail
            else:
                items.append(ch.tail)
    exp_items = []
    for ch in exp["children"]:
        if "q" not in ch and exp_items and "q" not in exp_items[-1] and "raw" in ch and "raw" in exp_items[-1]:
            exp_items[-1] = {"raw": exp_items[-1]["raw"] + ch["raw"]}
        else:
            exp_items.append(ch)
    has_el = any("q" in c for c in exp_items)
    if has_el and not exp["any"] and all("q" in c for c in exp_items):
        # element-only content: whitespace between children is not data
        items = [i for i in items if not (isinstance(i, str) and not i.strip())]
    # an empty string leaves no text node behind
    if items == []:
        exp_items = [c for c in exp_items if "q" in c or not leaf_matches(spec, c, "", nsmap)]
    if len(items) != len(exp_items):
        def nm(x):
            return x if isinstance(x, str) else x.tag
        return ("children", f"{here}: content {[nm(i) for i in items]} where the metadata prescribes "
                            f"{[c.get('q', 'text') for c in exp_items]}")
    for e, a in zip(exp_items, items):
        if "q" in e:
            if isinstance(a, str):
                return ("children", f"{here}: text {a!r} where element {e['q']} is prescribed")
            r = compare(spec, e, a, here)
            if r:
                return r
        else:
            if not isinstance(a, str):
                return ("children", f"{here}: element {a.tag} where text is prescribed")
            if not leaf_matches(spec, e, a, nsmap):
                return ("text-value", f"{here}: text {a!r} does not denote {e.get('v', e.get('raw'))!r}")
    return None
