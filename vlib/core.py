"""Runner plumbing: collectors, sharded execution, shrinking, replay files, known findings,
evidence files.  See DESIGN.md §2, §3.1, §3.6, §3.7.

A check module (checks/cNN.py) provides

    ID, LEVEL, RULE, ASSUMPTIONS
    plan(tier, seed)            -> list of shard dicts (plain data)
    run_shard(shard, col)       -> None; reports into the Collector
    replay_case(case)           -> list[Failure]   (plain re-execution, no Hypothesis)

Cases are *plain JSON data*; a failing case is written verbatim to
replay/<ID>/<sig>-<hash>.json and re-executed by `run.py <ID> --replay <path>`.
"""
from __future__ import annotations

import collections
import hashlib
import json
import multiprocessing
import os
import sys
import time
import traceback
from pathlib import Path

from vlib.bootstrap import VERIF, harness_error

EVIDENCE = VERIF / "evidence"
REPLAY = VERIF / "replay"
KNOWN = VERIF / "known_findings.json"
NPROC = int(os.environ.get("VERIF_NPROC", "16"))


class Failure:
    __slots__ = ("sig", "what", "case")

    def __init__(self, sig, what, case):
        self.sig = sig          # root-cause key, stable across runs
        self.what = what        # one line for humans
        self.case = case        # plain data, enough to re-execute

    def to_json(self):
        return {"signature": self.sig, "what": self.what, "case": self.case}


def fingerprint(obj) -> str:
    return hashlib.blake2b(
        json.dumps(obj, sort_keys=True, default=repr, ensure_ascii=True).encode(), digest_size=8
    ).hexdigest()


class Collector:
    """Per-shard accumulator; merged by the parent."""

    MAX_SAMPLES = 6

    def __init__(self, known_sigs=()):
        self.evaluations = 0
        self.nontrivial = set()
        self.labels = collections.Counter()
        self.samples = []
        self.failures = {}          # sig -> Failure (first seen, later replaced by shrunk)
        self.fail_counts = collections.Counter()
        self.known_hits = collections.Counter()
        self.known_sigs = set(known_sigs)
        self.generator_rejects = 0
        self.exhaustive = []        # names of sub-domains enumerated completely
        self.notes = []
        self._sample_every = 1

    # -- reporting API used by checks -------------------------------------
    def case(self, fp, nontrivial, sample=None, labels=()):
        self.evaluations += 1
        if nontrivial:
            self.nontrivial.add(fp if isinstance(fp, str) else fingerprint(fp))
        for l in labels:
            self.labels[l] += 1
        if sample is not None and nontrivial and len(self.samples) < self.MAX_SAMPLES:
            # spread the samples over the run instead of taking the first ones
            if self.evaluations % self._sample_every == 0:
                self.samples.append(sample)
                self._sample_every *= 3

    def label(self, *names):
        for n in names:
            self.labels[n] += 1

    def reject(self, n=1):
        self.generator_rejects += n

    def is_known(self, sig):
        return sig in self.known_sigs

    def fail(self, failure: Failure):
        """Record a failed oracle.  Returns True if it is an unlisted (new) signature."""
        if failure.sig in self.known_sigs:
            self.known_hits[failure.sig] += 1
            return False
        self.fail_counts[failure.sig] += 1
        self.failures.setdefault(failure.sig, failure)
        return True

    # -- transport ----------------------------------------------------------
    def dump(self):
        return {
            "evaluations": self.evaluations,
            "nontrivial": sorted(self.nontrivial),
            "labels": dict(self.labels),
            "samples": self.samples,
            "failures": {s: f.to_json() for s, f in self.failures.items()},
            "fail_counts": dict(self.fail_counts),
            "known_hits": dict(self.known_hits),
            "generator_rejects": self.generator_rejects,
            "exhaustive": self.exhaustive,
            "notes": self.notes,
        }


# ---------------------------------------------------------------------------
# known findings


def load_known(prop):
    if not KNOWN.exists():
        return []
    data = json.loads(KNOWN.read_text())
    return [f for f in data.get("findings", []) if f["property"] == prop]


# ---------------------------------------------------------------------------
# Hypothesis driver: collect, then shrink each new signature (DESIGN §3.7)


def hyp_settings(n, phases=None):
    from hypothesis import HealthCheck, Phase, settings
    return settings(
        max_examples=n, database=None, deadline=None, derandomize=False,
        report_multiple_bugs=False, suppress_health_check=list(HealthCheck),
        phases=phases or [Phase.generate], print_blob=False,
    )


def hyp_campaign(strategy, execute, n, seed, col, shrink_budget_s=25.0, max_shrinks=4):
    """Run `execute(case, col) -> iterable[Failure]` on `n` generated cases.

    Failures are collected (known signatures muted and counted) instead of stopping the
    campaign; afterwards each *new* signature is shrunk by Hypothesis within a time budget
    and the smallest failing case replaces the first one seen.
    """
    import hypothesis
    from hypothesis import Phase, given

    @hypothesis.seed(seed)
    @hyp_settings(n)
    @given(strategy)
    def collect(case):
        for f in execute(case, col) or ():
            col.fail(f)

    collect()

    for sig in list(col.failures)[:max_shrinks]:
        best = {"case": col.failures[sig].case, "what": col.failures[sig].what}
        t_end = time.monotonic() + shrink_budget_s
        quiet = Collector(col.known_sigs)

        @hypothesis.seed(seed)
        @hyp_settings(max(n, 200), [Phase.generate, Phase.shrink])
        @given(strategy)
        def shrink(case):
            if time.monotonic() > t_end:
                return
            for f in execute(case, quiet) or ():
                if f.sig == sig:
                    best["case"], best["what"] = f.case, f.what
                    raise AssertionError(sig)

        try:
            shrink()
        except BaseException as e:  # AssertionError / Flaky / anything: best[] holds the result
            if isinstance(e, KeyboardInterrupt):
                raise
        col.failures[sig] = Failure(sig, best["what"], best["case"])


def innermost_xsdata_frame(exc):
    """(file:function) of the innermost frame inside the xsdata package, for bucketing."""
    key = "?"
    for fs in traceback.extract_tb(exc.__traceback__):
        fn = fs.filename.replace("\\", "/")
        if "/xsdata/" in fn:
            key = fn.split("/xsdata/", 1)[1] + ":" + fs.name
    return key


def exc_sig(prefix, exc):
    return f"{prefix}/{type(exc).__name__}@{innermost_xsdata_frame(exc)}"


# ---------------------------------------------------------------------------
# sharded execution


def _worker(args):
    mod_name, shard, known_sigs = args
    import importlib
    import shutil
    import tempfile
    # pool workers leave through os._exit, so atexit handlers and TemporaryDirectory finalisers never run:
    # every scratch file of a shard goes under one directory that is removed here
    prev = (tempfile.tempdir, os.environ.get("TMPDIR"))
    base = tempfile.mkdtemp(prefix="vshard_")
    tempfile.tempdir = base
    os.environ["TMPDIR"] = base
    try:
        mod = importlib.import_module(mod_name)
        col = Collector(known_sigs)
        mod.run_shard(shard, col)
        return ("ok", col.dump())
    except BaseException:
        return ("error", f"shard {shard!r}\n" + traceback.format_exc())
    finally:
        tempfile.tempdir = prev[0]
        if prev[1] is None:
            os.environ.pop("TMPDIR", None)
        else:
            os.environ["TMPDIR"] = prev[1]
        shutil.rmtree(base, ignore_errors=True)


def run_shards(mod_name, shards, known_sigs, nproc=NPROC):
    if not shards:
        return []
    args = [(mod_name, s, sorted(known_sigs)) for s in shards]
    if nproc <= 1 or len(shards) == 1 or os.environ.get("VERIF_INPROC"):
        out = [_worker(a) for a in args]
    else:
        ctx = multiprocessing.get_context("fork")
        with ctx.Pool(min(nproc, len(shards)), maxtasksperchild=1) as pool:
            out = pool.map(_worker, args, chunksize=1)
    dumps = []
    for status, payload in out:
        if status != "ok":
            harness_error("worker failed:\n" + payload)
        dumps.append(payload)
    return dumps


def merge(dumps):
    m = {
        "evaluations": 0, "nontrivial": set(), "labels": collections.Counter(), "samples": [],
        "failures": {}, "fail_counts": collections.Counter(), "known_hits": collections.Counter(),
        "generator_rejects": 0, "exhaustive": [], "notes": [],
    }
    for d in dumps:
        m["evaluations"] += d["evaluations"]
        m["nontrivial"].update(d["nontrivial"])
        m["labels"].update(d["labels"])
        m["fail_counts"].update(d["fail_counts"])
        m["known_hits"].update(d["known_hits"])
        m["generator_rejects"] += d["generator_rejects"]
        for e in d["exhaustive"]:
            if e not in m["exhaustive"]:
                m["exhaustive"].append(e)
        for n in d["notes"]:
            if n not in m["notes"]:
                m["notes"].append(n)
        for s, f in d["failures"].items():
            old = m["failures"].get(s)
            if old is None or len(json.dumps(f["case"], default=repr)) < len(json.dumps(old["case"], default=repr)):
                m["failures"][s] = f
    # interleave samples from different shards
    pools = [d["samples"] for d in dumps if d["samples"]]
    i = 0
    while pools and len(m["samples"]) < 8:
        p = pools[i % len(pools)]
        if p:
            m["samples"].append(p.pop(0))
        else:
            pools.remove(p)
            continue
        i += 1
    return m


# ---------------------------------------------------------------------------
# top level


def write_replay(prop, failure_json):
    d = REPLAY / prop
    d.mkdir(parents=True, exist_ok=True)
    safe = "".join(c if c.isalnum() or c in "-_." else "_" for c in failure_json["signature"])[:80]
    h = fingerprint(failure_json["case"])
    path = d / f"{safe}-{h}.json"
    path.write_text(json.dumps({"property": prop, **failure_json}, indent=1, default=repr, ensure_ascii=True))
    return path


def write_evidence(mod, tier, seed, merged, wall_s, violations, extra_cov=None):
    EVIDENCE.mkdir(exist_ok=True)
    cov = {
        "evaluations": merged["evaluations"],
        "distinct_nontrivial": len(merged["nontrivial"]),
        "rule": mod.RULE,
        "samples": merged["samples"],
        "labels": dict(sorted(merged["labels"].items())),
        "generator_rejects": merged["generator_rejects"],
        "known_finding_hits": dict(merged["known_hits"]),
        "new_failure_signatures": dict(merged["fail_counts"]),
        "exhaustive_subdomains": merged["exhaustive"],
        "exhaustive": False,
        "notes": merged["notes"],
    }
    if extra_cov:
        cov.update(extra_cov)
    ev = {
        "property_id": mod.ID, "tier": tier, "seed": seed, "level": mod.LEVEL,
        "coverage": cov, "assumptions": list(mod.ASSUMPTIONS), "wall_s": round(wall_s, 2),
        "violations": violations,
    }
    (EVIDENCE / f"{mod.ID}.json").write_text(json.dumps(ev, indent=1, default=repr, ensure_ascii=True))


def main_check(mod, tier, seed):
    """Run one property check. Returns the process exit code."""
    t0 = time.monotonic()
    known = load_known(mod.ID)
    # "mute": false entries are excluded from the search by construction (the generator avoids the region);
    # their example is still re-executed below, but the same signature elsewhere is reported
    known_sigs = {k["signature"] for k in known if k.get("mute", True)}
    col0 = Collector(known_sigs)

    # 1. replay tier: saved cases (regressions and seed corpus) first, without Hypothesis
    rdir = REPLAY / mod.ID
    replayed = 0
    if rdir.is_dir():
        for p in sorted(rdir.glob("*.json")):
            try:
                data = json.loads(p.read_text())
                for f in mod.replay_case(data["case"]) or ():
                    col0.fail(f)
                replayed += 1
            except Exception:
                harness_error(f"replay of {p} crashed:\n{traceback.format_exc()}")
    # 2. known findings: re-execute the recorded example; it must still fail with its signature
    #    (if it does not, the entry is stale; say so, do not fail the run)
    stale = []
    for k in known:
        try:
            sigs = {f.sig for f in (mod.replay_case(k["example"]) or ())}
        except Exception:
            harness_error(f"known-finding example for {k['signature']} crashed:\n{traceback.format_exc()}")
        if k["signature"] in sigs:
            print(f"KNOWN-FINDING: property={mod.ID} {k['signature']}: {k['what']}", flush=True)
            col0.known_hits[k["signature"]] += 1
        else:
            stale.append(k["signature"])


    # 3. generated search
    shards = mod.plan(tier, seed)
    dumps = run_shards(mod.__name__, shards, known_sigs)
    merged = merge([col0.dump()] + dumps)
    merged["labels"]["replayed_saved_cases"] = replayed
    if stale:
        merged["notes"].append("known findings whose example no longer fails (stale, nothing suppressed): " + ", ".join(stale))

    # a health rule shared by all checks: generator rejects must stay rare
    if merged["evaluations"] and merged["generator_rejects"] > 0.05 * (merged["evaluations"] + merged["generator_rejects"]) \
            and not getattr(mod, "REJECTS_OK", False):
        harness_error(f"{mod.ID}: generator rejects {merged['generator_rejects']} vs {merged['evaluations']} evaluations")

    violations = 0
    lines = []
    for sig, fj in sorted(merged["failures"].items()):
        path = write_replay(mod.ID, fj)
        violations += 1
        lines.append(f"VIOLATION property={mod.ID} replay={path}")
        first = (fj["what"].splitlines() or [""])[0]
        lines.append(f"  signature={sig} hits={merged['fail_counts'].get(sig, 0)} :: {first[:300]}")
    extra = mod.extra_coverage(merged) if hasattr(mod, "extra_coverage") else None
    write_evidence(mod, tier, seed, merged, time.monotonic() - t0, violations, extra)
    print(f"{mod.ID} tier={tier} seed={seed} evaluations={merged['evaluations']} "
          f"distinct_nontrivial={len(merged['nontrivial'])} known_hits={sum(merged['known_hits'].values())} "
          f"rejects={merged['generator_rejects']} violations={violations} wall={time.monotonic() - t0:.1f}s", flush=True)
    for l in lines:
        print(l, flush=True)
    return 1 if violations else 0


def main_replay(mod, path):
    data = json.loads(Path(path).read_text())
    known_sigs = {k["signature"] for k in load_known(mod.ID)
                  if k.get("mute", True) or fingerprint(k["example"]) == fingerprint(data["case"])}
    fails = list(mod.replay_case(data["case"]) or ())
    rc = 0
    for f in fails:
        if f.sig in known_sigs:
            print(f"KNOWN-FINDING: property={mod.ID} {f.sig}: {f.what[:300]}")
        else:
            print(f"VIOLATION property={mod.ID} replay={path}")
            print(f"  signature={f.sig} :: {f.what[:1000]}")
            rc = 1
    if not fails:
        print(f"{mod.ID} replay {path}: property holds on this case")
    return rc
