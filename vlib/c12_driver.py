"""Sub-process side of C12: runs one generation route in a fresh interpreter (its PYTHONHASHSEED is set by the parent).

stdin: JSON {"route": "api" | "api-twice" | "api-after-other" (+ "other_options") | "cli" | "cli-config" | "cli-cache-twice", "dir": workdir, "sources": {name: text}, "options": {...},
             "package": "gen.pkg"};  stdout: JSON {"files": {relative path: text}, "error": null | str}
"""
import hashlib
import io
import json
import os
import sys
from pathlib import Path

sys.path.insert(0, str(Path(__file__).resolve().parent.parent))
from vlib import bootstrap  # noqa: E402

bootstrap.bootstrap(reexec=False)


def cli_flags(options):
    """Command-line spelling of an option dict, derived from the GeneratorOutput dataclass metadata (long names only)."""
    import dataclasses
    import enum
    from xsdata.models import config as C
    from xsdata.utils import text

    flags, rest = [], {}

    def walk(cls, prefix):
        hints = {f.name: f for f in dataclasses.fields(cls)}
        for name, f in hints.items():
            key = f"{prefix}{name}"
            tp = f.type if isinstance(f.type, type) else None
            default = f.default_factory() if f.default_factory is not dataclasses.MISSING else f.default
            if dataclasses.is_dataclass(default):
                walk(type(default), key + ".")
                continue
            if key not in options:
                continue
            cli = f.metadata.get("cli", name)
            v = options[key]
            if not cli:
                rest[key] = v          # not exposed on the command line: goes through a project file
                continue
            if isinstance(default, bool):
                flags.append(("--" if v else "--no-") + text.kebab_case(cli))
            else:
                flags.extend(["--" + "-".join(text.split_words(cli)), v.value if isinstance(v, enum.Enum) else str(v)])
    walk(C.GeneratorOutput, "")
    return flags, rest


def collect(top):
    out = {}
    for p in sorted(Path(top).rglob("*.py")):
        out[str(p.relative_to(Path(top).parent))] = p.read_bytes().decode("utf-8", "surrogateescape")
    return out


def main():
    job = json.load(sys.stdin)
    os.makedirs(job["dir"], exist_ok=True)
    os.chdir(job["dir"])
    sys.path.insert(0, job["dir"])
    src = Path(job["dir"]) / "src"
    src.mkdir(exist_ok=True)
    for name, text_ in job["sources"].items():
        (src / name).write_text(text_, encoding="utf-8")
    options = dict(job["options"], package=job["package"])
    real_out, sys.stdout = sys.stdout, io.StringIO()
    err = None
    try:
        import logging
        import warnings
        warnings.simplefilter("ignore")
        if job["route"] in ("api", "api-twice", "api-after-other"):
            from vlib.codegen import config_from
            from xsdata.codegen.transformer import ResourceTransformer
            uris = sorted(p.resolve().as_uri() for p in src.iterdir())
            if job["route"] == "api-after-other":
                # an earlier run in this interpreter with OTHER settings (same package, same sources) must leave nothing behind
                pre = job["dir"].rstrip("/") + "_pre"
                os.makedirs(pre, exist_ok=True)
                os.chdir(pre)
                try:
                    ResourceTransformer(config=config_from(dict(job["other_options"], package=job["package"]))).process(uris)
                except Exception:  # noqa: BLE001 - only the second run is judged
                    pass
                os.chdir(job["dir"])
            for _ in range(2 if job["route"] == "api-twice" else 1):
                ResourceTransformer(config=config_from(options)).process(uris)
        else:
            from xsdata.cli import cli
            args = ["generate", str(src)]
            repeat = 1
            if job["route"] == "cli-cache-twice":
                args.append("--cache")
                repeat = 2
            if job["route"] in ("cli", "cli-cache-twice"):
                flags, rest = cli_flags(options)
                args += flags
                if rest:
                    from vlib.codegen import config_from
                    from xsdata.models.config import GeneratorConfig
                    with open("partial.xsdata.xml", "w") as fh:
                        GeneratorConfig.write(fh, config_from(rest))
                    args += ["--config", "partial.xsdata.xml"]
            else:
                from vlib.codegen import config_from
                from xsdata.models.config import GeneratorConfig
                with open("project.xsdata.xml", "w") as fh:
                    GeneratorConfig.write(fh, config_from(options))
                args += ["--config", "project.xsdata.xml"]
            old_err, sys.stderr = sys.stderr, io.StringIO()
            try:
                for _ in range(repeat):
                    cli.main(args, standalone_mode=False)
            finally:
                sys.stderr = old_err
    except BaseException as e:  # noqa: BLE001 - reported to the parent
        err = f"{type(e).__name__}: {e}"
    sys.stdout = real_out
    json.dump({"files": collect(Path(job["dir"]) / job["package"].split(".")[0]), "error": err}, sys.stdout)


if __name__ == "__main__":
    main()
