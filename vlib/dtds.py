"""DtdSpec: generated external DTDs with instance documents valid by construction (C16).

    spec = {"root": name, "ns": None | {"kind": "default" | "prefix", "uri": u, "prefix": p},
            "elements": {name: {"content": CONTENT, "attrs": [ATTR...]}}}          (insertion order = declaration order)
    CONTENT = {"k": "empty" | "any" | "pcdata"} | {"k": "mixed", "names": [...]} | {"k": "children", "model": P}
    P = {"k": "el", "name": n, "occ": O} | {"k": "seq" | "choice", "items": [P...], "occ": O}      O in "", "?", "*", "+"
    ATTR = {"name": n, "type": "CDATA" | "ID" | "IDREF" | "IDREFS" | "NMTOKEN" | "NMTOKENS" | ["a", "b"], "mode": "#REQUIRED" | "#IMPLIED" |
            "#FIXED" | "default", "value": v}

Every element name occurs at most once in a content model (so every model is deterministic) and elements only refer to
elements declared after them (no unbounded recursion).
"""
import io

from hypothesis import strategies as st
from lxml import etree

NAMES = ["doc", "head", "body", "item", "name", "value", "code", "note", "row", "unit", "size", "part", "kind", "entry", "info", "ref", "tag",
         "Title", "sub-item", "x.y"]
ATTR_NAMES = ["id", "ref", "refs", "lang", "status", "kind", "code", "n", "created_at", "data-x", "level"]
TEXTS = ["abc", "x y", "Hello, World", "é中", "a<b&c", "0", "1.5", "true", "  padded  ", "line1\nline2"]
CDATA = ["v", "a b", "", "é", "1", "x<y&z", "it's \"q\"", ", ", "  ", "NB: ", " x  y "]
NMTOKENS = ["tok", "a.b-c", "x1", "_u"]
ENUMS = [["draft", "published"], ["a", "b", "c"], ["on", "off"], ["x-1", "x.2", "X"]]


class Opts:
    def __init__(self, **kw):
        self.max_elements = 9
        self.namespaces = True
        self.any = True
        self.mixed = True
        self.nested_sequence_occurs = False      # recorded finding when enabled: (a, (b, c)*) loses the group occurrence
        self.nested_groups = True
        self.attr_namespaces = True              # xmlns:p declarations on an element + prefixed attributes
        self.__dict__.update(kw)


@st.composite
def dtd_specs(draw, opts=None):
    o = opts or Opts()
    n = draw(st.integers(2, o.max_elements))
    names = draw(st.lists(st.sampled_from(NAMES), min_size=n, max_size=n, unique_by=lambda s: s.lower().replace("-", "").replace(".", "").replace("_", "")))
    ns = None
    if o.namespaces and draw(st.integers(0, 3)) == 0:
        ns = {"kind": draw(st.sampled_from(["default", "prefix"])), "uri": draw(st.sampled_from(["http://www.example.com/", "urn:dtd:x"])), "prefix": "ns"}
    elements = {}
    for i, nm in enumerate(names):
        later = names[i + 1:]
        kind = draw(st.sampled_from(["children", "children", "children", "pcdata", "pcdata", "empty", "mixed", "any"])) if later else \
            draw(st.sampled_from(["pcdata", "pcdata", "empty"]))
        if i == 0 and later:
            kind = "children"
        if kind == "mixed" and not o.mixed:
            kind = "pcdata"
        if kind == "any" and not o.any:
            kind = "children"
        if kind == "children" and len(later) >= 3 and draw(st.integers(0, 5)) == 0:
            # the classic repeated choice (para | list | figure | quote)*
            picked = draw(st.lists(st.sampled_from(later), min_size=3, max_size=min(4, len(later)), unique=True))
            content = {"k": "children", "model": {"k": "choice", "occ": draw(st.sampled_from(["*", "+"])),
                                                  "items": [{"k": "el", "name": n_, "occ": ""} for n_ in picked]}}
        elif kind == "children":
            pool = list(later)
            content = {"k": "children", "model": draw(_group(pool, o, 0, top=True))}
        elif kind == "mixed":
            content = {"k": "mixed", "names": draw(st.lists(st.sampled_from(later), min_size=1, max_size=min(3, len(later)), unique=True))}
        else:
            content = {"k": kind}
        attrs = draw(_attrs())
        nsdecls = []
        if o.attr_namespaces and draw(st.integers(0, 3)) == 0:
            nsdecls = draw(st.lists(st.sampled_from([("a", "urn:attr:a"), ("b", "urn:attr:b"), ("m", "urn:attr:m"), ("xl", "http://www.w3.org/1999/xlink")]),
                                    min_size=1, max_size=3, unique=True))
            first = draw(st.booleans())          # declared before or after the ordinary attributes
            for a in attrs:
                if a["type"] not in ("ID", "IDREF", "IDREFS") and draw(st.booleans()):
                    a["prefix"] = draw(st.sampled_from(nsdecls))[0]
            if attrs and draw(st.booleans()):
                # the same local name once more under a prefix (xlink:href next to href)
                twin = draw(st.sampled_from(attrs))
                if not twin.get("prefix") and twin["type"] not in ("ID", "IDREF", "IDREFS"):
                    attrs.append({"name": twin["name"], "type": "CDATA", "mode": "#IMPLIED", "value": None, "prefix": draw(st.sampled_from(nsdecls))[0]})
            nsdecls = {"decls": [list(x) for x in nsdecls], "first": first}
        if draw(st.integers(0, 5)) == 0 and not any(a["name"] == "lang" and a.get("prefix") for a in attrs):
            # xml:lang needs no declaration; it may sit next to a plain `lang`
            attrs.append({"name": "lang", "type": "NMTOKEN", "mode": draw(st.sampled_from(["#IMPLIED", "default"])), "value": "en", "prefix": "xml"})
            if attrs[-1]["mode"] == "#IMPLIED":
                attrs[-1]["value"] = None
        elements[nm] = {"content": content, "attrs": attrs, "nsdecls": nsdecls or None}
    # the text that follows an ANY child inside mixed content is moved into that child (recorded finding, as C02 mixed-tail-...)
    for e in elements.values():
        c = e["content"]
        if c["k"] == "mixed":
            c["names"] = [n for n in c["names"] if elements[n]["content"]["k"] != "any"]
            if not c["names"]:
                e["content"] = {"k": "pcdata"}
    # elements nobody refers to are still declared (a DTD may declare more than one document type)
    return {"root": names[0], "ns": ns, "elements": elements}


@st.composite
def _group(draw, pool, o, depth, top=False):
    kind = draw(st.sampled_from(["seq", "seq", "choice"]))
    occ = draw(st.sampled_from(["", "", "?", "*", "+"]))
    if kind == "seq" and not top and not o.nested_sequence_occurs:
        occ = ""
    if kind == "seq" and top and not o.nested_sequence_occurs and occ in ("*", "+", "?"):
        occ = ""        # (a, b)* at the top of a model is the same nested-sequence shape for the mapper
    items = []
    for _ in range(draw(st.integers(1, 4))):
        if not pool:
            break
        if o.nested_groups and depth < 2 and len(pool) >= 2 and draw(st.integers(0, 4)) == 0:
            items.append(draw(_group(pool, o, depth + 1)))
        else:
            nm = draw(st.sampled_from(pool))
            pool.remove(nm)
            items.append({"k": "el", "name": nm, "occ": draw(st.sampled_from(["", "", "?", "*", "+"]))})
    if not items:
        items.append({"k": "el", "name": "MISSING", "occ": ""})
    return {"k": kind, "items": items, "occ": occ}


@st.composite
def _attrs(draw):
    out, has_id = [], False
    names = draw(st.lists(st.sampled_from(ATTR_NAMES), min_size=0, max_size=3, unique_by=str.lower))
    for nm in names:
        tp = draw(st.sampled_from(["CDATA", "CDATA", "ID", "IDREF", "IDREFS", "NMTOKEN", "NMTOKENS", "enum"]))
        if tp == "ID" and has_id:
            tp = "CDATA"
        if tp == "ID":
            has_id = True
            out.append({"name": nm, "type": "ID", "mode": draw(st.sampled_from(["#REQUIRED", "#IMPLIED"])), "value": None})
            continue
        if tp in ("IDREF", "IDREFS"):
            out.append({"name": nm, "type": tp, "mode": "#IMPLIED", "value": None})
            continue
        if tp == "enum":
            tp = draw(st.sampled_from(ENUMS))
        mode = draw(st.sampled_from(["#REQUIRED", "#IMPLIED", "#FIXED", "default"]))
        value = None
        if mode in ("#FIXED", "default"):
            value = draw(st.sampled_from(tp)) if isinstance(tp, list) else \
                {"CDATA": draw(st.sampled_from([v for v in CDATA if '"' not in v and "<" not in v and "&" not in v])), "NMTOKEN": draw(st.sampled_from(NMTOKENS)),
                 "NMTOKENS": " ".join(draw(st.lists(st.sampled_from(NMTOKENS), min_size=1, max_size=3)))}[tp]
        out.append({"name": nm, "type": tp, "mode": mode, "value": value})
    return out


# ---------------------------------------------------------------------------


def qname(spec, name):
    ns = spec["ns"]
    return f"{ns['prefix']}:{name}" if ns and ns["kind"] == "prefix" else name


def attr_qname(a):
    return f"{a['prefix']}:{a['name']}" if a.get("prefix") else a["name"]


def render_dtd(spec):
    out = []

    def model(p):
        if p["k"] == "el":
            return qname(spec, p["name"]) + p["occ"]
        sep = "," if p["k"] == "seq" else "|"
        return "(" + sep.join(model(i) for i in p["items"]) + ")" + p["occ"]
    for nm, e in spec["elements"].items():
        c = e["content"]
        if c["k"] == "empty":
            cm = "EMPTY"
        elif c["k"] == "any":
            cm = "ANY"
        elif c["k"] == "pcdata":
            cm = "(#PCDATA)"
        elif c["k"] == "mixed":
            cm = "(#PCDATA|" + "|".join(qname(spec, n) for n in c["names"]) + ")*"
        else:
            m = c["model"]
            cm = model(m) if m["k"] != "el" else "(" + model(m) + ")"
        out.append(f"<!ELEMENT {qname(spec, nm)} {cm}>")
        if nm == spec["root"] and spec["ns"]:
            ns = spec["ns"]
            att = "xmlns" if ns["kind"] == "default" else f"xmlns:{ns['prefix']}"
            out.append(f'<!ATTLIST {qname(spec, nm)} {att} CDATA #FIXED "{ns["uri"]}">')
        nsd = e.get("nsdecls")
        decl_lines = [f'<!ATTLIST {qname(spec, nm)} xmlns:{p} CDATA #FIXED "{u}">' for p, u in (nsd["decls"] if nsd else [])]
        if nsd and nsd["first"]:
            out.extend(decl_lines)
        for a in e["attrs"]:
            tp = "(" + "|".join(a["type"]) + ")" if isinstance(a["type"], list) else a["type"]
            dflt = a["mode"] if a["mode"] in ("#REQUIRED", "#IMPLIED") else ('#FIXED ' if a["mode"] == "#FIXED" else "") + '"' + a["value"] + '"'
            out.append(f"<!ATTLIST {qname(spec, nm)} {attr_qname(a)} {tp} {dflt}>")
        if nsd and not nsd["first"]:
            out.extend(decl_lines)
    return "\n".join(out) + "\n"


class InstanceGen:
    def __init__(self, draw, spec, max_nodes=50):
        self.d, self.spec, self.budget = draw, spec, max_nodes
        self.ids, self.idref_slots = [], []

    def tag(self, name):
        ns = self.spec["ns"]
        return "{%s}%s" % (ns["uri"], name) if ns else name

    def nsmap_of(self, name):
        nsd = self.spec["elements"][name].get("nsdecls")
        return {p: u for p, u in nsd["decls"]} if nsd else None

    def document(self):
        ns = self.spec["ns"]
        nsmap = None
        if ns:
            nsmap = {None if ns["kind"] == "default" else ns["prefix"]: ns["uri"]}
        root = etree.Element(self.tag(self.spec["root"]), nsmap={**(nsmap or {}), **(self.nsmap_of(self.spec["root"]) or {})} or None)
        self.fill(root, self.spec["root"], 0)
        for el, a in self.idref_slots:
            if self.ids and self.d(st.booleans()):
                if a["type"] == "IDREF":
                    el.set(a["name"], self.d(st.sampled_from(self.ids)))
                else:
                    el.set(a["name"], " ".join(self.d(st.lists(st.sampled_from(self.ids), min_size=1, max_size=3))))
        return root

    def fill(self, el, name, depth):
        d = self.d
        e = self.spec["elements"][name]
        uris = dict(map(tuple, e["nsdecls"]["decls"])) if e.get("nsdecls") else {}
        uris["xml"] = "http://www.w3.org/XML/1998/namespace"
        for a in e["attrs"]:
            if a.get("prefix"):
                a = dict(a, name="{%s}%s" % (uris[a["prefix"]], a["name"]))
            if a["type"] == "ID":
                if a["mode"] == "#REQUIRED" or d(st.booleans()):
                    v = f"id{len(self.ids) + 1}"
                    self.ids.append(v)
                    el.set(a["name"], v)
            elif a["type"] in ("IDREF", "IDREFS"):
                self.idref_slots.append((el, a))
            elif a["mode"] == "#FIXED":
                if d(st.booleans()):
                    el.set(a["name"], a["value"])
            elif a["mode"] == "#REQUIRED" or d(st.integers(0, 2)) != 0:
                if a["mode"] == "default" and d(st.integers(0, 3)) == 0:
                    el.set(a["name"], a["value"])
                elif isinstance(a["type"], list):
                    el.set(a["name"], d(st.sampled_from(a["type"])))
                elif a["type"] == "CDATA":
                    el.set(a["name"], d(st.sampled_from(CDATA)))
                elif a["type"] == "NMTOKEN":
                    el.set(a["name"], d(st.sampled_from(NMTOKENS)))
                else:
                    el.set(a["name"], " ".join(d(st.lists(st.sampled_from(NMTOKENS), min_size=1, max_size=3))))
        c = e["content"]
        if c["k"] == "empty":
            return
        if c["k"] == "pcdata":
            el.text = d(st.sampled_from(TEXTS + [None]))
            return
        if c["k"] == "any":
            later = list(self.spec["elements"])
            later = later[later.index(name) + 1:]
            for _ in range(d(st.integers(0, 2)) if later and depth < 4 else 0):
                self.child(el, d(st.sampled_from(later)), depth)
            return
        if c["k"] == "mixed":
            if d(st.booleans()):
                el.text = d(st.sampled_from(TEXTS))
            for _ in range(d(st.integers(0, 3)) if depth < 4 and self.budget > 0 else 0):
                ch = self.child(el, d(st.sampled_from(c["names"])), depth)
                if d(st.booleans()):
                    ch.tail = d(st.sampled_from(TEXTS))
            return
        self.particle(el, c["model"], depth)

    def child(self, parent, name, depth):
        self.budget -= 1
        ch = etree.SubElement(parent, self.tag(name), nsmap=self.nsmap_of(name))
        self.fill(ch, name, depth + 1)
        return ch

    def times(self, occ, depth):
        d = self.d
        lo, hi = {"": (1, 1), "?": (0, 1), "*": (0, 3), "+": (1, 3)}[occ]
        if self.budget <= 0 or depth > 4:
            return lo
        return d(st.integers(lo, hi))

    def particle(self, parent, p, depth):
        for _ in range(self.times(p["occ"], depth)):
            if p["k"] == "el":
                self.child(parent, p["name"], depth)
            elif p["k"] == "choice":
                self.particle(parent, self.d(st.sampled_from(p["items"])), depth)
            else:
                for it in p["items"]:
                    self.particle(parent, it, depth)


def validator(dtd_text):
    return etree.DTD(io.StringIO(dtd_text))


def with_defaults(dtd_text, root_name, xml_text):
    """The document as a validating XML processor reports it: attribute defaults and fixed values of the DTD applied."""
    body = xml_text.split("?>", 1)[1] if xml_text.lstrip().startswith("<?xml") else xml_text
    doc = f"<!DOCTYPE {root_name} [\n{dtd_text}]>\n{body}"
    parser = etree.XMLParser(load_dtd=True, attribute_defaults=True, resolve_entities=False, no_network=True, remove_comments=True, remove_pis=True)
    return etree.fromstring(doc.encode("utf-8"), parser)


def order_preserving(spec, compound):
    ok = True

    def walk(p, top=True):
        nonlocal ok
        if p["k"] == "el":
            return
        if p["occ"] in ("*", "+"):
            if not (p["k"] == "choice" and compound and all(i["k"] == "el" and i["occ"] in ("", "?") for i in p["items"])):
                ok = False
        for i in p["items"]:
            walk(i, False)
    for e in spec["elements"].values():
        c = e["content"]
        if c["k"] == "children":
            walk(c["model"])
        elif c["k"] in ("mixed", "any"):
            ok = False
    return ok


def features(spec):
    f = set()
    if spec["ns"]:
        f.add("namespace-" + spec["ns"]["kind"])

    def walk(p, depth=0):
        if p["k"] == "el":
            if p["occ"]:
                f.add("element-occurrence")
            return
        f.add(p["k"])
        if p["occ"]:
            f.add("group-occurrence")
        if depth:
            f.add("nested-group")
        for i in p["items"]:
            walk(i, depth + 1)
    for e in spec["elements"].values():
        c = e["content"]
        f.add("content-" + c["k"])
        if c["k"] == "children":
            walk(c["model"])
        if e.get("nsdecls"):
            f.add("attr-namespaces")
        for a in e["attrs"]:
            f.add("attr-" + ("enum" if isinstance(a["type"], list) else a["type"]))
            f.add("attr-mode-" + a["mode"].strip("#").lower())
    return f


def sequence_inside_choice(spec):
    found = [False]

    def walk(p, in_choice=False):
        if p["k"] == "el":
            return
        if p["k"] == "seq" and in_choice and len(p["items"]) > 1:
            found[0] = True
        for i in p["items"]:
            walk(i, in_choice or p["k"] == "choice")
    for e in spec["elements"].values():
        if e["content"]["k"] == "children":
            walk(e["content"]["model"])
    return found[0]
