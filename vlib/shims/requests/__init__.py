"""Name-only stand-in for `requests` so xsdata.formats.dataclass.transports imports; never used for I/O."""


class Response:  # pragma: no cover
    status_code = 0
    content = b""

    def raise_for_status(self):
        raise RuntimeError("requests stand-in: no network")


class Session:  # pragma: no cover
    def get(self, *a, **k):
        raise RuntimeError("requests stand-in: no network")

    post = get


class HTTPError(Exception):  # pragma: no cover
    pass
