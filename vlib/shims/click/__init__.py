"""Minimal stand-in for `click`: only what xsdata.codegen.exceptions needs (API route)."""
import sys


def echo(message=None, file=None, nl=True, err=False, color=None):
    out = file or (sys.stderr if err else sys.stdout)
    out.write(("" if message is None else str(message)) + ("\n" if nl else ""))


class ClickException(Exception):
    exit_code = 1

    def __init__(self, message):
        super().__init__(message)
        self.message = message

    def format_message(self):
        return self.message

    def __str__(self):
        return self.message

    def show(self, file=None):
        echo("Error: {}".format(self.format_message()), file=file or sys.stderr)
