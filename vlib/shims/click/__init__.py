"""Stand-in for `click` (absent from this sandbox, DESIGN §1.1).

Two users: xsdata.codegen.exceptions (ClickException, echo) on the API route, and xsdata.cli / xsdata.utils.click on
the command-line route of C12.  For the latter this module implements the small part of click's documented behaviour
that xsdata's declarations use: groups and commands, positional arguments, value options with long/short names,
boolean `--x/--no-x` flags, `is_flag` options, an explicit destination name as the last declaration, defaults,
ParamType.convert (Choice, Path, custom types), `--opt=value`, and `Command.main(args, standalone_mode=False)`.
Nothing of xsdata's own logic lives here.
"""
import sys


def echo(message=None, file=None, nl=True, err=False, color=None):
    out = file or (sys.stderr if err else sys.stdout)
    out.write(("" if message is None else str(message)) + ("\n" if nl else ""))


def style(text, **kwargs):
    return str(text)


class ClickException(Exception):
    exit_code = 1

    def __init__(self, message):
        super().__init__(message)
        self.message = message

    def format_message(self):
        return self.message

    def __str__(self):
        return self.message

    def show(self, file=None):
        echo("Error: {}".format(self.format_message()), file=file or sys.stderr)


class UsageError(ClickException):
    exit_code = 2


class BadParameter(UsageError):
    def __init__(self, message, ctx=None, param=None, param_hint=None):
        super().__init__(message)


class Context:
    def __init__(self, command=None, parent=None, info_name=None):
        self.command, self.parent, self.info_name = command, parent, info_name
        self.params = {}
        self.obj = None
        self._close = []

    def call_on_close(self, f):
        self._close.append(f)
        return f

    def close(self):
        for f in reversed(self._close):
            f()
        self._close = []


class ParamType:
    name = "text"

    def convert(self, value, param, ctx):
        return value

    def fail(self, message, param=None, ctx=None):
        raise BadParameter(message, ctx=ctx, param=param)

    def __call__(self, value, param=None, ctx=None):
        return self.convert(value, param, ctx)


class Choice(ParamType):
    name = "choice"

    def __init__(self, choices, case_sensitive=True):
        self.choices = list(choices)

    def convert(self, value, param, ctx):
        if value in self.choices:
            return value
        self.fail(f"{value!r} is not one of {self.choices}", param, ctx)


class Path(ParamType):
    name = "path"

    def __init__(self, **kwargs):
        pass


class _FuncType(ParamType):
    def __init__(self, func):
        self.func = func

    def convert(self, value, param, ctx):
        try:
            return self.func(value)
        except ValueError:
            self.fail(f"{value!r} is not a valid {getattr(self.func, '__name__', 'value')}", param, ctx)


def _as_type(tp):
    if tp is None or isinstance(tp, ParamType):
        return tp
    if tp in (str,):
        return None
    if callable(tp):
        return _FuncType(tp)
    return None


class Parameter:
    def __init__(self, decls, type=None, default=None, required=False, **attrs):
        self.decls, self.type, self.default, self.required = list(decls), _as_type(type), default, required

    def convert(self, value, ctx):
        if value is None or self.type is None:
            return value
        return self.type.convert(value, self, ctx)


class Argument(Parameter):
    def __init__(self, decls, **attrs):
        super().__init__(decls, **attrs)
        self.name = decls[0].replace("-", "_").lower()


class Option(Parameter):
    def __init__(self, decls, is_flag=False, help=None, **attrs):
        super().__init__(decls, **attrs)
        self.is_flag = is_flag
        self.on, self.off, self.value_names = [], [], []
        explicit = None
        for d in decls:
            if "/" in d:
                a, b = d.split("/", 1)
                self.on.append(a.strip())
                self.off.append(b.strip())
                self.is_flag = True
            elif d.startswith("-"):
                (self.on if self.is_flag else self.value_names).append(d)
            else:
                explicit = d
        longest = max((n for n in self.on + self.value_names), key=lambda n: (n.startswith("--"), len(n)))
        self.name = explicit or longest.lstrip("-").replace("-", "_").lower()
        if self.is_flag and self.default is None and "default" not in attrs:
            self.default = None


class Command:
    def __init__(self, name, callback, params):
        self.name, self.callback, self.params = name, callback, params
        self.pass_ctx = getattr(callback, "__click_pass_context__", False)

    def parse(self, args, ctx):
        values = {p.name: p.default for p in self.params}
        positional = [p for p in self.params if isinstance(p, Argument)]
        options = [p for p in self.params if isinstance(p, Option)]
        lookup = {}
        for o in options:
            for n in o.on:
                lookup[n] = (o, True)
            for n in o.off:
                lookup[n] = (o, False)
            for n in o.value_names:
                lookup[n] = (o, None)
        rest, i, only_positional = [], 0, False
        args = list(args)
        while i < len(args):
            a = args[i]
            i += 1
            if only_positional or not a.startswith("-") or a == "-":
                rest.append(a)
                continue
            if a == "--":
                only_positional = True
                continue
            inline = None
            if a.startswith("--") and "=" in a:
                a, inline = a.split("=", 1)
            if a not in lookup:
                if isinstance(self, Group):
                    rest.append(a)
                    rest.extend(args[i:])
                    break
                raise UsageError(f"No such option: {a}")
            opt, flag = lookup[a]
            if flag is not None:
                values[opt.name] = flag
            else:
                if inline is None:
                    if i >= len(args):
                        raise UsageError(f"Option {a} requires an argument")
                    inline = args[i]
                    i += 1
                values[opt.name] = opt.convert(inline, ctx)
        return values, positional, rest

    def invoke(self, args, parent=None):
        ctx = Context(self, parent, self.name)
        values, positional, rest = self.parse(args, ctx)
        for p in positional:
            if rest:
                values[p.name] = p.convert(rest.pop(0), ctx)
            elif p.required and p.default is None:
                raise UsageError(f"Missing argument {p.name.upper()!r}")
        if rest:
            raise UsageError(f"Got unexpected extra arguments ({' '.join(rest)})")
        ctx.params = values
        return self.callback(ctx, **values) if self.pass_ctx else self.callback(**values)

    def main(self, args=None, prog_name=None, standalone_mode=True, **extra):
        args = list(sys.argv[1:] if args is None else args)
        try:
            return self.invoke(args)
        except ClickException as e:
            if not standalone_mode:
                raise
            e.show()
            sys.exit(e.exit_code)

    def __call__(self, *args, **kwargs):
        return self.main(*args, **kwargs)


class Group(Command):
    def __init__(self, name, callback, params):
        super().__init__(name, callback, params)
        self.commands = {}

    def command(self, name=None, **attrs):
        def decorator(f):
            cmd = _make(Command, name or f.__name__.replace("_", "-"), f)
            self.commands[cmd.name] = cmd
            return cmd
        return decorator

    def invoke(self, args, parent=None):
        ctx = Context(self, parent, self.name)
        names = set(self.commands)
        split = next((i for i, a in enumerate(args) if a in names), None)
        if split is None:
            raise UsageError("Missing command.")
        values, _, rest = self.parse(args[:split], ctx)
        if rest:
            raise UsageError(f"No such command {rest[0]!r}")
        ctx.params = values
        try:
            self.callback(ctx, **values) if self.pass_ctx else self.callback(**values)
            return self.commands[args[split]].invoke(args[split + 1:], ctx)
        finally:
            ctx.close()


def _make(cls, name, f):
    params = list(reversed(getattr(f, "__click_params__", [])))
    return cls(name, f, params)


def _attach(f, param):
    if isinstance(f, Command):
        f.params.insert(0, param)
    else:
        f.__dict__.setdefault("__click_params__", []).append(param)
    return f


def option(*decls, **attrs):
    return lambda f: _attach(f, Option(decls, **attrs))


def argument(*decls, **attrs):
    return lambda f: _attach(f, Argument(decls, **attrs))


def version_option(version=None, *decls, **attrs):
    return lambda f: f


def pass_context(f):
    f.__click_pass_context__ = True
    return f


def group(name=None, **attrs):
    def decorator(f):
        return _make(Group, name or f.__name__, f)
    return decorator


def command(name=None, **attrs):
    def decorator(f):
        return _make(Command, name or f.__name__.replace("_", "-"), f)
    return decorator
