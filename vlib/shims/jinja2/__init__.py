"""A small interpreter for the subset of Jinja2 used by xsdata's templates.

Stand-in for the third-party `jinja2` package, which is not installed in this
sandbox.  It reads the *real* template files shipped in
xsdata/formats/dataclass/templates and implements the documented Jinja2
semantics for exactly the constructs they use:

statements : set (inline and block-with-filter), if/elif/else, for (tuple
             targets, inline `if`), include (dynamic name, shares context),
             with, filter blocks, comments
whitespace : `-` control on both sides of every tag, default environment
             (trim_blocks/lstrip_blocks off, keep_trailing_newline off)
expressions: literals, names, attribute/subscript/call, filters with
             arguments, `is [not]` tests, not/and/or, comparisons, + - * / // % ~,
             conditional expressions with optional else
builtins   : filters default, join, indent, length, groupby, upper, lower,
             trim, first, last, list; tests none, defined, undefined

Anything outside the subset raises TemplateSyntaxError loudly instead of
guessing.
"""

from __future__ import annotations

import itertools
import operator
import os
import re
from typing import Any

__version__ = "0.verif-subset"


class TemplateError(Exception):
    pass


class TemplateSyntaxError(TemplateError):
    pass


class TemplateNotFound(TemplateError):
    pass


class UndefinedError(TemplateError):
    pass


class Undefined:
    __slots__ = ("_name",)

    def __init__(self, name: str = "?"):
        self._name = name

    def __str__(self) -> str:
        return ""

    def __bool__(self) -> bool:
        return False

    def __iter__(self):
        return iter(())

    def __len__(self) -> int:
        return 0

    def __eq__(self, other: Any) -> bool:
        return type(other) is Undefined

    def __ne__(self, other: Any) -> bool:
        return not self.__eq__(other)

    def __hash__(self) -> int:
        return id(type(self))

    def _fail(self, *a: Any, **k: Any) -> Any:
        raise UndefinedError(f"{self._name!r} is undefined")

    __getattr__ = _fail  # type: ignore
    __getitem__ = __call__ = __add__ = __radd__ = __sub__ = __mul__ = _fail
    __lt__ = __le__ = __gt__ = __ge__ = __int__ = __float__ = _fail


# --------------------------------------------------------------------------
# Lexer: template source -> data / tag tokens with whitespace control applied
# --------------------------------------------------------------------------

_TAG_RE = re.compile(r"(\{%-?|\{\{-?|\{#-?)(.*?)(-?%\}|-?\}\}|-?#\})", re.S)


def _split_source(source: str) -> list[tuple[str, str]]:
    """Return [(kind, text)] with kind in data|block|var."""
    out: list[tuple[str, str]] = []
    pos = 0
    strip_next = False
    for m in _TAG_RE.finditer(source):
        start, body, end = m.group(1), m.group(2), m.group(3)
        kinds = {"{%": "block", "{{": "var", "{#": "comment"}
        kind = kinds[start[:2]]
        closing = {"block": "%}", "var": "}}", "comment": "#}"}[kind]
        if not end.endswith(closing):
            raise TemplateSyntaxError(f"mismatched tag delimiters near {m.group(0)!r}")
        data = source[pos : m.start()]
        if strip_next:
            data = data.lstrip()
        if start.endswith("-"):
            data = data.rstrip()
        if data:
            out.append(("data", data))
        strip_next = end.startswith("-")
        if kind != "comment":
            out.append((kind, body.strip()))
        pos = m.end()
    data = source[pos:]
    if strip_next:
        data = data.lstrip()
    if data:
        out.append(("data", data))
    return out


# --------------------------------------------------------------------------
# Expression tokenizer / parser
# --------------------------------------------------------------------------

_TOK_RE = re.compile(
    r"""\s*(?:
        (?P<num>\d+\.\d+|\d+)
      | (?P<name>[A-Za-z_][A-Za-z0-9_]*)
      | (?P<str>"(?:\\.|[^"\\])*"|'(?:\\.|[^'\\])*')
      | (?P<op>==|!=|<=|>=|//|\*\*|[-+*/%~|.,()\[\]{}:<>=])
    )""",
    re.X | re.S,
)

_ESCAPES = {"n": "\n", "t": "\t", "r": "\r", "\\": "\\", '"': '"', "'": "'", "0": "\0"}


def _unescape(body: str) -> str:
    def repl(m: re.Match) -> str:
        ch = m.group(1)
        if ch not in _ESCAPES:
            raise TemplateSyntaxError(f"unsupported string escape \\{ch}")
        return _ESCAPES[ch]

    return re.sub(r"\\(.)", repl, body, flags=re.S)


def _tokenize(src: str) -> list[tuple[str, Any]]:
    toks: list[tuple[str, Any]] = []
    pos = 0
    src = src.rstrip()
    while pos < len(src):
        m = _TOK_RE.match(src, pos)
        if not m or m.end() == pos:
            raise TemplateSyntaxError(f"cannot tokenize {src[pos:]!r}")
        pos = m.end()
        if m.group("num") is not None:
            t = m.group("num")
            toks.append(("num", float(t) if "." in t else int(t)))
        elif m.group("name") is not None:
            toks.append(("name", m.group("name")))
        elif m.group("str") is not None:
            toks.append(("str", _unescape(m.group("str")[1:-1])))
        else:
            toks.append(("op", m.group("op")))
    toks.append(("eof", None))
    return toks


_KEYWORDS = {"and", "or", "not", "if", "else", "is", "in"}
_CONSTS = {
    "none": None,
    "None": None,
    "true": True,
    "True": True,
    "false": False,
    "False": False,
}


class _Parser:
    def __init__(self, toks: list[tuple[str, Any]]):
        self.toks = toks
        self.i = 0

    # token helpers
    def peek(self, k: int = 0) -> tuple[str, Any]:
        return self.toks[min(self.i + k, len(self.toks) - 1)]

    def next(self) -> tuple[str, Any]:
        tok = self.toks[self.i]
        self.i += 1
        return tok

    def at_op(self, *ops: str) -> bool:
        kind, val = self.peek()
        return kind == "op" and val in ops

    def at_name(self, *names: str) -> bool:
        kind, val = self.peek()
        return kind == "name" and val in names

    def expect_op(self, op: str) -> None:
        if not self.at_op(op):
            raise TemplateSyntaxError(f"expected {op!r}, got {self.peek()!r}")
        self.next()

    def expect_name(self, name: str | None = None) -> str:
        kind, val = self.peek()
        if kind != "name" or (name is not None and val != name):
            raise TemplateSyntaxError(f"expected name {name!r}, got {self.peek()!r}")
        self.next()
        return val

    def at_end(self) -> bool:
        return self.peek()[0] == "eof"

    # grammar (mirrors jinja2.parser precedence)
    def parse_expression(self, with_condexpr: bool = True):
        if with_condexpr:
            return self.parse_condexpr()
        return self.parse_or()

    def parse_condexpr(self):
        expr1 = self.parse_or()
        while self.at_name("if"):
            self.next()
            test = self.parse_or()
            if self.at_name("else"):
                self.next()
                expr3 = self.parse_condexpr()
            else:
                expr3 = None
            expr1 = ("cond", test, expr1, expr3)
        return expr1

    def parse_or(self):
        left = self.parse_and()
        while self.at_name("or"):
            self.next()
            left = ("or", left, self.parse_and())
        return left

    def parse_and(self):
        left = self.parse_not()
        while self.at_name("and"):
            self.next()
            left = ("and", left, self.parse_not())
        return left

    def parse_not(self):
        if self.at_name("not"):
            self.next()
            return ("not", self.parse_not())
        return self.parse_compare()

    def parse_compare(self):
        left = self.parse_math1()
        ops = []
        while True:
            if self.at_op("==", "!=", "<", ">", "<=", ">="):
                op = self.next()[1]
                ops.append((op, self.parse_math1()))
            elif self.at_name("in"):
                self.next()
                ops.append(("in", self.parse_math1()))
            elif self.at_name("not") and self.peek(1) == ("name", "in"):
                self.next()
                self.next()
                ops.append(("notin", self.parse_math1()))
            else:
                break
        return ("compare", left, ops) if ops else left

    def parse_math1(self):
        left = self.parse_concat()
        while self.at_op("+", "-"):
            op = self.next()[1]
            left = ("bin", op, left, self.parse_concat())
        return left

    def parse_concat(self):
        parts = [self.parse_math2()]
        while self.at_op("~"):
            self.next()
            parts.append(self.parse_math2())
        return parts[0] if len(parts) == 1 else ("concat", parts)

    def parse_math2(self):
        left = self.parse_pow()
        while self.at_op("*", "/", "//", "%"):
            op = self.next()[1]
            left = ("bin", op, left, self.parse_pow())
        return left

    def parse_pow(self):
        left = self.parse_unary()
        while self.at_op("**"):
            self.next()
            left = ("bin", "**", left, self.parse_unary())
        return left

    def parse_unary(self, with_filter: bool = True):
        if self.at_op("-"):
            self.next()
            node = ("neg", self.parse_unary(False))
        elif self.at_op("+"):
            self.next()
            node = ("pos", self.parse_unary(False))
        else:
            node = self.parse_primary()
        node = self.parse_postfix(node)
        if with_filter:
            node = self.parse_filter_expr(node)
        return node

    def parse_primary(self):
        kind, val = self.peek()
        if kind == "name":
            if val in _KEYWORDS:
                raise TemplateSyntaxError(f"unexpected keyword {val!r}")
            self.next()
            if val in _CONSTS:
                return ("const", _CONSTS[val])
            return ("name", val)
        if kind == "str":
            self.next()
            buf = [val]
            while self.peek()[0] == "str":
                buf.append(self.next()[1])
            return ("const", "".join(buf))
        if kind == "num":
            self.next()
            return ("const", val)
        if kind == "op" and val == "(":
            self.next()
            node = self.parse_tuple(explicit_parentheses=True)
            self.expect_op(")")
            return node
        if kind == "op" and val == "[":
            self.next()
            items = []
            while not self.at_op("]"):
                if items:
                    self.expect_op(",")
                    if self.at_op("]"):
                        break
                items.append(self.parse_expression())
            self.expect_op("]")
            return ("list", items)
        raise TemplateSyntaxError(f"unexpected token {self.peek()!r}")

    def parse_tuple(self, explicit_parentheses: bool = False):
        items = []
        is_tuple = False
        while True:
            if items:
                self.expect_op(",")
            if self.at_op(")") or self.at_end():
                break
            items.append(self.parse_expression())
            if self.at_op(","):
                is_tuple = True
            else:
                break
        if not is_tuple:
            if items:
                return items[0]
            if not explicit_parentheses:
                raise TemplateSyntaxError("expected an expression")
        return ("tuple", items)

    def parse_postfix(self, node):
        while True:
            if self.at_op("."):
                self.next()
                kind, val = self.next()
                if kind == "name":
                    node = ("getattr", node, val)
                elif kind == "num" and isinstance(val, int):
                    node = ("getitem", node, ("const", val))
                else:
                    raise TemplateSyntaxError("expected name or number after '.'")
            elif self.at_op("["):
                self.next()
                arg = self.parse_expression()
                self.expect_op("]")
                node = ("getitem", node, arg)
            elif self.at_op("("):
                args, kwargs = self.parse_call_args()
                node = ("call", node, args, kwargs)
            else:
                return node

    def parse_filter_expr(self, node):
        while True:
            if self.at_op("|"):
                node = self.parse_filter(node)
            elif self.at_name("is"):
                node = self.parse_test(node)
            elif self.at_op("("):
                args, kwargs = self.parse_call_args()
                node = ("call", node, args, kwargs)
            else:
                return node

    def parse_filter(self, node, start_inline: bool = False):
        while self.at_op("|") or start_inline:
            if not start_inline:
                self.next()
            name = self.expect_name()
            while self.at_op("."):
                self.next()
                name += "." + self.expect_name()
            if self.at_op("("):
                args, kwargs = self.parse_call_args()
            else:
                args, kwargs = [], []
            node = ("filter", node, name, args, kwargs)
            start_inline = False
        return node

    def parse_test(self, node):
        self.expect_name("is")
        negated = False
        if self.at_name("not"):
            self.next()
            negated = True
        name = self.expect_name()
        args: list = []
        kwargs: list = []
        if self.at_op("("):
            args, kwargs = self.parse_call_args()
        elif self.peek()[0] in ("str", "num") or (
            self.peek()[0] == "name"
            and self.peek()[1] not in {"else", "or", "and", "if", "is", "in", "not"}
        ):
            arg = self.parse_primary()
            args = [self.parse_postfix(arg)]
        node = ("test", node, name, args, kwargs)
        return ("not", node) if negated else node

    def parse_call_args(self):
        self.expect_op("(")
        args: list = []
        kwargs: list = []
        first = True
        while not self.at_op(")"):
            if not first:
                self.expect_op(",")
                if self.at_op(")"):
                    break
            first = False
            if self.at_op("*", "**"):
                raise TemplateSyntaxError("star-args are outside the supported subset")
            if self.peek()[0] == "name" and self.peek(1) == ("op", "="):
                key = self.next()[1]
                self.next()
                kwargs.append((key, self.parse_expression()))
            else:
                if kwargs:
                    raise TemplateSyntaxError("positional after keyword argument")
                args.append(self.parse_expression())
        self.expect_op(")")
        return args, kwargs


# --------------------------------------------------------------------------
# Statement parser: tokens -> tree
# --------------------------------------------------------------------------

_END = {
    "if": ("elif", "else", "endif"),
    "for": ("endfor",),
    "set": ("endset",),
    "with": ("endwith",),
    "filter": ("endfilter",),
}


def _parse_template(source: str):
    tokens = _split_source(source)
    pos = 0

    def parse_until(stops: tuple[str, ...]):
        nonlocal pos
        body = []
        while pos < len(tokens):
            kind, text = tokens[pos]
            if kind == "data":
                body.append(("data", text))
                pos += 1
                continue
            if kind == "var":
                p = _Parser(_tokenize(text))
                expr = p.parse_tuple() if text else None
                if expr is None or not p.at_end():
                    raise TemplateSyntaxError(f"bad print expression {text!r}")
                body.append(("print", expr))
                pos += 1
                continue
            word = text.split(None, 1)[0] if text else ""
            if word in stops:
                return body, word, text
            pos += 1
            body.append(parse_statement(word, text))
        if stops:
            raise TemplateSyntaxError(f"unexpected end of template, expected {stops}")
        return body, None, None

    def parse_statement(word: str, text: str):
        nonlocal pos
        rest = text[len(word) :].strip()
        if word == "set":
            p = _Parser(_tokenize(rest))
            target = p.expect_name()
            if p.at_op("="):
                p.next()
                expr = p.parse_tuple()
                if not p.at_end():
                    raise TemplateSyntaxError(f"trailing tokens in set: {text!r}")
                return ("set", target, expr)
            filt = None
            if p.at_op("|"):
                filt = p.parse_filter(("name", "\0body"))
            if not p.at_end():
                raise TemplateSyntaxError(f"bad set block: {text!r}")
            body, _, _ = parse_until(_END["set"])
            pos += 1
            return ("setblock", target, filt, body)
        if word == "if":
            branches = []
            p = _Parser(_tokenize(rest))
            cond = p.parse_tuple()
            if not p.at_end():
                raise TemplateSyntaxError(f"trailing tokens in if: {text!r}")
            else_body = None
            while True:
                body, stop, stop_text = parse_until(_END["if"])
                pos += 1
                branches.append((cond, body))
                if stop == "elif":
                    p = _Parser(_tokenize(stop_text[4:].strip()))
                    cond = p.parse_tuple()
                    if not p.at_end():
                        raise TemplateSyntaxError(f"trailing tokens: {stop_text!r}")
                    continue
                if stop == "else":
                    else_body, _, _ = parse_until(("endif",))
                    pos += 1
                break
            return ("if", branches, else_body)
        if word == "for":
            p = _Parser(_tokenize(rest))
            targets = [p.expect_name()]
            while p.at_op(","):
                p.next()
                targets.append(p.expect_name())
            p.expect_name("in")
            iterable = p.parse_or()
            test = None
            if p.at_name("if"):
                p.next()
                test = p.parse_expression()
            if p.at_name("recursive") or not p.at_end():
                raise TemplateSyntaxError(f"unsupported for syntax: {text!r}")
            body, _, _ = parse_until(_END["for"])
            pos += 1
            return ("for", targets, iterable, test, body)
        if word == "include":
            p = _Parser(_tokenize(rest))
            expr = p.parse_expression()
            if not p.at_end():
                raise TemplateSyntaxError(f"unsupported include options: {text!r}")
            return ("include", expr)
        if word == "with":
            p = _Parser(_tokenize(rest))
            assigns = []
            while not p.at_end():
                if assigns:
                    p.expect_op(",")
                name = p.expect_name()
                p.expect_op("=")
                assigns.append((name, p.parse_expression()))
            body, _, _ = parse_until(_END["with"])
            pos += 1
            return ("with", assigns, body)
        if word == "filter":
            p = _Parser(_tokenize(rest))
            filt = p.parse_filter(("name", "\0body"), start_inline=True)
            if not p.at_end():
                raise TemplateSyntaxError(f"bad filter block: {text!r}")
            body, _, _ = parse_until(_END["filter"])
            pos += 1
            return ("filterblock", filt, body)
        raise TemplateSyntaxError(f"unsupported statement {{% {text} %}}")

    body, _, _ = parse_until(())
    return body


# --------------------------------------------------------------------------
# Runtime
# --------------------------------------------------------------------------

_BINOPS = {
    "+": operator.add,
    "-": operator.sub,
    "*": operator.mul,
    "/": operator.truediv,
    "//": operator.floordiv,
    "%": operator.mod,
    "**": operator.pow,
}
_CMPOPS = {
    "==": operator.eq,
    "!=": operator.ne,
    "<": operator.lt,
    ">": operator.gt,
    "<=": operator.le,
    ">=": operator.ge,
    "in": lambda a, b: a in b,
    "notin": lambda a, b: a not in b,
}


class _Context:
    """Chained variable scopes; globals at the bottom."""

    def __init__(self, env: "Environment", variables: dict):
        self.env = env
        self.scopes: list[dict] = [dict(variables)]

    def lookup(self, name: str) -> Any:
        for scope in reversed(self.scopes):
            if name in scope:
                return scope[name]
        if name in self.env.globals:
            return self.env.globals[name]
        return Undefined(name)

    def assign(self, name: str, value: Any) -> None:
        self.scopes[-1][name] = value

    def push(self, variables: dict | None = None) -> None:
        self.scopes.append(dict(variables or {}))

    def pop(self) -> None:
        self.scopes.pop()


def _do_default(value: Any, default_value: Any = "", boolean: bool = False) -> Any:
    if isinstance(value, Undefined) or (boolean and not value):
        return default_value
    return value


def _do_join(value: Any, d: str = "", attribute: Any = None) -> str:
    if attribute is not None:
        value = [_getattr(item, attribute) for item in value]
    return str(d).join(map(str, value))


def _do_indent(s: Any, width: Any = 4, first: bool = False, blank: bool = False) -> str:
    s = str(s)
    indention = width if isinstance(width, str) else " " * width
    newline = "\n"
    s += newline  # this quirk is necessary for splitlines method
    if blank:
        rv = (newline + indention).join(s.splitlines())
    else:
        lines = s.splitlines()
        rv = lines.pop(0)
        if lines:
            rv += newline + newline.join(
                indention + line if line else line for line in lines
            )
    if first:
        rv = indention + rv
    return rv


class _GroupTuple(tuple):
    __slots__ = ()
    grouper = property(operator.itemgetter(0))
    list = property(operator.itemgetter(1))

    def __new__(cls, key: Any, values: list):
        return tuple.__new__(cls, (key, values))


def _getattr(obj: Any, attribute: Any) -> Any:
    """jinja2.Environment.getitem semantics for filter `attribute` arguments."""
    if isinstance(attribute, int):
        return obj[attribute]
    for part in str(attribute).split("."):
        if part.isdigit():
            obj = obj[int(part)]
        else:
            try:
                obj = obj[part]
            except (AttributeError, TypeError, LookupError):
                try:
                    obj = getattr(obj, part)
                except AttributeError:
                    obj = Undefined(part)
    return obj


def _do_groupby(value: Any, attribute: Any, default: Any = None) -> list:
    def key(item: Any) -> Any:
        rv = _getattr(item, attribute)
        if isinstance(rv, Undefined) and default is not None:
            return default
        return rv

    return [
        _GroupTuple(k, list(v)) for k, v in itertools.groupby(sorted(value, key=key), key)
    ]


def _do_first(seq: Any) -> Any:
    try:
        return next(iter(seq))
    except StopIteration:
        return Undefined("first")


def _do_last(seq: Any) -> Any:
    try:
        return next(iter(reversed(seq)))
    except StopIteration:
        return Undefined("last")


DEFAULT_FILTERS = {
    "default": _do_default,
    "d": _do_default,
    "join": _do_join,
    "indent": _do_indent,
    "length": len,
    "count": len,
    "groupby": _do_groupby,
    "upper": lambda s: str(s).upper(),
    "lower": lambda s: str(s).lower(),
    "trim": lambda s, chars=None: str(s).strip(chars),
    "first": _do_first,
    "last": _do_last,
    "list": list,
    "string": str,
}

DEFAULT_TESTS = {
    "none": lambda v: v is None,
    "defined": lambda v: not isinstance(v, Undefined),
    "undefined": lambda v: isinstance(v, Undefined),
    "string": lambda v: isinstance(v, str),
    "true": lambda v: v is True,
    "false": lambda v: v is False,
}


class Template:
    def __init__(self, env: "Environment", name: str, source: str):
        self.environment = env
        self.name = name
        if not env.keep_trailing_newline and source.endswith("\n"):
            source = source[:-1]
            if source.endswith("\r"):
                source = source[:-1]
        self.body = _parse_template(source)

    def render(self, *args: Any, **kwargs: Any) -> str:
        variables = dict(*args, **kwargs)
        ctx = _Context(self.environment, variables)
        out: list[str] = []
        try:
            self._exec(self.body, ctx, out)
        except StopIteration as e:
            # Jinja2 renders through a generator, so a StopIteration escaping a filter surfaces as RuntimeError (PEP 479)
            raise RuntimeError("generator raised StopIteration") from e
        return "".join(out)

    # -- statements
    def _exec(self, body: list, ctx: _Context, out: list[str]) -> None:
        for node in body:
            kind = node[0]
            if kind == "data":
                out.append(node[1])
            elif kind == "print":
                value = self._eval(node[1], ctx)
                out.append(self.environment.finalize_str(value))
            elif kind == "set":
                ctx.assign(node[1], self._eval(node[2], ctx))
            elif kind == "setblock":
                _, target, filt, inner = node
                buf: list[str] = []
                ctx.push()
                try:
                    self._exec(inner, ctx, buf)
                finally:
                    ctx.pop()
                value: Any = "".join(buf)
                if filt is not None:
                    ctx.push({"\0body": value})
                    try:
                        value = self._eval(filt, ctx)
                    finally:
                        ctx.pop()
                ctx.assign(target, value)
            elif kind == "if":
                _, branches, else_body = node
                for cond, inner in branches:
                    if self._eval(cond, ctx):
                        self._exec(inner, ctx, out)
                        break
                else:
                    if else_body is not None:
                        self._exec(else_body, ctx, out)
            elif kind == "for":
                _, targets, iterable, test, inner = node
                seq = self._eval(iterable, ctx)
                if isinstance(seq, Undefined):
                    seq = ()
                for item in seq:
                    if len(targets) == 1:
                        bound = {targets[0]: item}
                    else:
                        values = tuple(item)
                        if len(values) != len(targets):
                            raise TemplateError("cannot unpack loop item")
                        bound = dict(zip(targets, values))
                    ctx.push(bound)
                    try:
                        if test is not None and not self._eval(test, ctx):
                            continue
                        self._exec(inner, ctx, out)
                    finally:
                        ctx.pop()
            elif kind == "include":
                name = self._eval(node[1], ctx)
                template = self.environment.get_template(str(name))
                ctx.push()
                try:
                    template._exec(template.body, ctx, out)
                finally:
                    ctx.pop()
            elif kind == "with":
                _, assigns, inner = node
                values = {name: self._eval(expr, ctx) for name, expr in assigns}
                ctx.push(values)
                try:
                    self._exec(inner, ctx, out)
                finally:
                    ctx.pop()
            elif kind == "filterblock":
                _, filt, inner = node
                buf = []
                ctx.push()
                try:
                    self._exec(inner, ctx, buf)
                finally:
                    ctx.pop()
                ctx.push({"\0body": "".join(buf)})
                try:
                    value = self._eval(filt, ctx)
                finally:
                    ctx.pop()
                out.append(self.environment.finalize_str(value))
            else:  # pragma: no cover
                raise TemplateError(f"unknown node {kind}")

    # -- expressions
    def _eval(self, node: Any, ctx: _Context) -> Any:
        kind = node[0]
        if kind == "const":
            return node[1]
        if kind == "name":
            return ctx.lookup(node[1])
        if kind == "getattr":
            obj = self._eval(node[1], ctx)
            if isinstance(obj, Undefined):
                obj._fail()
            try:
                return getattr(obj, node[2])
            except AttributeError:
                try:
                    return obj[node[2]]
                except (TypeError, LookupError, AttributeError):
                    return Undefined(node[2])
        if kind == "getitem":
            obj = self._eval(node[1], ctx)
            arg = self._eval(node[2], ctx)
            if isinstance(obj, Undefined):
                obj._fail()
            try:
                return obj[arg]
            except (TypeError, LookupError, AttributeError):
                if isinstance(arg, str):
                    try:
                        return getattr(obj, arg)
                    except AttributeError:
                        pass
                return Undefined(str(arg))
        if kind == "call":
            func = self._eval(node[1], ctx)
            args = [self._eval(a, ctx) for a in node[2]]
            kwargs = {k: self._eval(v, ctx) for k, v in node[3]}
            return func(*args, **kwargs)
        if kind == "filter":
            _, inner, name, fargs, fkwargs = node
            func = self.environment.filters.get(name)
            if func is None:
                raise TemplateError(f"No filter named {name!r}.")
            value = self._eval(inner, ctx)
            args = [self._eval(a, ctx) for a in fargs]
            kwargs = {k: self._eval(v, ctx) for k, v in fkwargs}
            return func(value, *args, **kwargs)
        if kind == "test":
            _, inner, name, targs, tkwargs = node
            func = self.environment.tests.get(name)
            if func is None:
                raise TemplateError(f"No test named {name!r}.")
            value = self._eval(inner, ctx)
            args = [self._eval(a, ctx) for a in targs]
            kwargs = {k: self._eval(v, ctx) for k, v in tkwargs}
            return bool(func(value, *args, **kwargs))
        if kind == "not":
            return not self._eval(node[1], ctx)
        if kind == "and":
            left = self._eval(node[1], ctx)
            return self._eval(node[2], ctx) if left else left
        if kind == "or":
            left = self._eval(node[1], ctx)
            return left if left else self._eval(node[2], ctx)
        if kind == "cond":
            _, test, expr1, expr3 = node
            if self._eval(test, ctx):
                return self._eval(expr1, ctx)
            if expr3 is None:
                return Undefined("inline-if without else")
            return self._eval(expr3, ctx)
        if kind == "compare":
            left = self._eval(node[1], ctx)
            for op, right_node in node[2]:
                right = self._eval(right_node, ctx)
                if not _CMPOPS[op](left, right):
                    return False
                left = right
            return True
        if kind == "bin":
            _, op, left, right = node
            return _BINOPS[op](self._eval(left, ctx), self._eval(right, ctx))
        if kind == "concat":
            return "".join(
                self.environment.finalize_str(self._eval(p, ctx)) for p in node[1]
            )
        if kind == "neg":
            return -self._eval(node[1], ctx)
        if kind == "pos":
            return +self._eval(node[1], ctx)
        if kind == "list":
            return [self._eval(i, ctx) for i in node[1]]
        if kind == "tuple":
            return tuple(self._eval(i, ctx) for i in node[1])
        raise TemplateError(f"unknown expression node {kind}")  # pragma: no cover


class BaseLoader:
    def get_source(self, environment: "Environment", template: str) -> str:
        raise TemplateNotFound(template)


class FileSystemLoader(BaseLoader):
    def __init__(self, searchpath: Any, encoding: str = "utf-8", followlinks: bool = False):
        if isinstance(searchpath, (str, os.PathLike)):
            searchpath = [searchpath]
        self.searchpath = [os.fspath(p) for p in searchpath]
        self.encoding = encoding

    def get_source(self, environment: "Environment", template: str) -> str:
        pieces = [p for p in template.split("/") if p and p != "."]
        if any(p == os.path.pardir or os.path.sep in p for p in pieces):
            raise TemplateNotFound(template)
        for root in self.searchpath:
            filename = os.path.join(root, *pieces)
            if os.path.isfile(filename):
                with open(filename, encoding=self.encoding) as fp:
                    return fp.read()
        raise TemplateNotFound(template)


class DictLoader(BaseLoader):
    def __init__(self, mapping: dict):
        self.mapping = mapping

    def get_source(self, environment: "Environment", template: str) -> str:
        if template in self.mapping:
            return self.mapping[template]
        raise TemplateNotFound(template)


class Environment:
    def __init__(
        self,
        loader: BaseLoader | None = None,
        autoescape: Any = False,
        trim_blocks: bool = False,
        lstrip_blocks: bool = False,
        keep_trailing_newline: bool = False,
        **unsupported: Any,
    ):
        if autoescape or trim_blocks or lstrip_blocks or unsupported:
            raise TemplateError(
                "jinja2 stand-in: unsupported Environment options "
                f"{dict(autoescape=autoescape, trim_blocks=trim_blocks, lstrip_blocks=lstrip_blocks, **unsupported)}"
            )
        self.loader = loader
        self.keep_trailing_newline = keep_trailing_newline
        self.filters: dict[str, Any] = dict(DEFAULT_FILTERS)
        self.tests: dict[str, Any] = dict(DEFAULT_TESTS)
        self.globals: dict[str, Any] = {"range": range, "dict": dict}
        self._cache: dict[str, Template] = {}

    @staticmethod
    def finalize_str(value: Any) -> str:
        return value if isinstance(value, str) else str(value)

    def get_template(self, name: str) -> Template:
        if name not in self._cache:
            if self.loader is None:
                raise TemplateNotFound(name)
            source = self.loader.get_source(self, name)
            # newline normalisation as in jinja2's lexer
            source = re.sub(r"\r\n|\r|\n", "\n", source)
            self._cache[name] = Template(self, name, source)
        return self._cache[name]

    def from_string(self, source: str) -> Template:
        return Template(self, "<string>", source)
