"""SchemaSpec: harness-side IR for the XSD fragment of C02/C07/C12/C13 (DESIGN §3.2).

A spec is plain data; from it are rendered (i) XSD text (one or two files) and (ii) instance documents that are valid
*by construction*; both are cross-validated with libxml2 by the checks (a schema libxml2 cannot compile or an instance
it rejects is a generator reject, never a violation).  `walk()` reads a document along the schema and yields a typed,
default-augmented canonical tree, so documents can be compared as typed infosets.

    spec = {"tns": uri|None, "efd": bool (elementFormDefault qualified), "afd": bool, "types": {name: CT|ST},
            "elements": {name: ElementDecl}, "root": name, "imports": {...optional second schema...}}
    CT  = {"k": "complex", "content": Particle|None, "attrs": [Attr], "mixed": bool, "base": name|None, "abstract": bool,
           "any_attr": bool, "simple": builtin|st-name|None}
    ST  = {"k": "enum"|"list"|"union"|"restriction", "base": builtin, "values": [...], "item": builtin, "members": [builtins]}
    Particle = {"k": "sequence"|"choice"|"all", "min", "max", "items": [Particle|El|Any]}
    El  = {"k": "element", "name", "type": TypeRef, "min", "max", "nillable", "form": None|bool, "default", "fixed", "ref": name|None}
    TypeRef = {"b": builtin} | {"t": type name} | {"anon": CT|ST}
    Attr = {"name", "type": TypeRef, "use": "optional"|"required", "default", "fixed", "form": None|bool}
"""
import copy
import keyword

from hypothesis import strategies as st
from lxml import etree

XS = "http://www.w3.org/2001/XMLSchema"
XSI = "http://www.w3.org/2001/XMLSchema-instance"

PLAIN_NAMES = ["item", "name", "value", "code", "note", "entry", "part", "unit", "row", "data", "info", "ref", "kind", "size", "tag"]
HOSTILE_NAMES = ["class", "def", "return", "import", "None", "True", "match", "type", "list", "str", "int", "field", "Meta", "Any",
                 "Optional", "Enum", "QName", "Decimal", "dataclass", "_1st", "_2-nd", "x9", "_private", "__dunder__", "with.dot", "with-dash",
                 "fooBar", "FooBar", "foo_bar", "foo-bar", "FOOBAR", "Élan", "naïve", "a", "A", "x1", "value", "Value", "VALUE", "object",
                 "self", "cls", "id", "async", "await", "lambda", "global", "nonlocal", "yield", "try", "pass", "del", "in", "is",
                 "not", "or", "and", "if", "else", "for", "while", "from", "as", "assert", "break", "continue", "except", "finally",
                 "raise", "len", "print", "property", "super", "isinstance", "a" * 70, "X_", "x__y", "Inner", "Element", "Attribute",
                 "é1x", "ö-3x", "ø5m", "ü2x"]   # (a name that reduces to digits only, like é1, is a recorded C07 finding)
ENUM_VALUES_HOSTILE = ["", " ", "1", "+1", "-", "--", "a b", "class", "None", "*", "/", "%", "é", "A", "a", "a_b", "a-b", "a.b", "9lives",
                       "true", "TRUE", "  lead", "x" * 60, "()", "'", '"', "\\", "a\tb", "β1", "é2"]

BUILTINS = ["string", "int", "integer", "long", "short", "decimal", "double", "float", "boolean", "date", "dateTime", "time",
            "duration", "gYear", "gYearMonth", "gMonthDay", "hexBinary", "base64Binary", "anyURI", "token", "NMTOKEN", "QName",
            "unsignedByte", "positiveInteger", "normalizedString", "language"]
SAMPLES = {
    "string": ["abc", "x y", "Hello, World", "é中", "a<b&c", "0", "tail "], "normalizedString": ["abc", "x y"], "token": ["tok", "a b"],
    "language": ["en", "en-US"], "NMTOKEN": ["nm", "a.b-c"], "anyURI": ["urn:x", "http://a/b?c=d"],
    "int": ["0", "-12", "2147483647", "+7", "007"], "integer": ["0", "123456789012345678901234567890", "-1"], "long": ["9223372036854775807", "-5"],
    "short": ["-32768", "12"], "unsignedByte": ["0", "255"], "positiveInteger": ["1", "42"],
    "decimal": ["0", "1.50", "-0.001", "+3.", "12345678901234567890.123"], "double": ["0", "1.5E10", "-INF", "NaN", "1e-5", "3.14"],
    "float": ["0", "1.5", "INF", "-1e3"], "boolean": ["true", "false", "1", "0"],
    "date": ["2001-10-26", "2001-10-26Z", "2001-10-26+02:00", "-0044-03-15"], "dateTime": ["2001-10-26T21:32:52", "2001-10-26T21:32:52.126Z", "2000-02-29T24:00:00"],
    "time": ["21:32:52", "21:32:52.5+02:00", "00:00:00Z"], "duration": ["P1Y", "PT1.5S", "-P2DT3H", "P1Y2M3DT4H5M6S"],
    "gYear": ["2001", "-0044", "2001Z"], "gYearMonth": ["2001-10", "2001-10+02:00"], "gMonthDay": ["--10-26", "--02-29"],
    "hexBinary": ["", "0FB7", "ab"], "base64Binary": ["", "eHNkYXRh", "AA=="], "QName": ["xs:string", "xs:int"],
}
CANONICAL = {   # spellings that are fixed points of xsdata's strict type test (for C13)
    "string": ["abc", "x y", "Hello", "é", "007", "00501", "+2", "1.", "1e3", "0x1F", "TRUE", "P", "12:00", "2001-13-01"], "int": ["0", "-12", "2147483647"], "integer": ["0", "-1"], "decimal": ["1.5", "-0.001"],
    "double": ["1.5", "-2.25"], "boolean": ["true", "false"], "date": ["2001-10-26", "2001-10-26Z"], "dateTime": ["2001-10-26T21:32:52"],
    "time": ["21:32:52"], "duration": ["P1Y", "PT1.5S"], "gYear": ["2001"], "hexBinary": ["0FB7"], "float": ["1.5", "-2.5"],
}


def is_simple(spec, tr):
    if "b" in tr:
        return True
    t = tr.get("anon") or spec["types"][tr["t"]]
    return t["k"] != "complex"


# ---------------------------------------------------------------------------
# strategy


class Opts:
    def __init__(self, **kw):
        self.hostile = False
        self.max_depth = 2
        self.max_items = 4
        self.namespaces = True
        self.extension = True
        self.wildcards = True
        self.mixed = True
        self.recursion = True
        self.simple_types = True
        self.groups = True
        self.two_files = True
        self.substitution = True
        self.defaults = True          # element/attribute default values
        self.fixed = True             # fixed values
        self.nillable = True
        self.all_groups = True
        self.attr_forms = True        # per-attribute form / attributeFormDefault qualified
        self.list_defaults = True    # default/fixed values on list types (recorded finding when enabled)
        self.repeat_defaults = True  # element defaults inside repeating groups / choices (recorded finding when enabled)
        self.union_types = True
        self.anon_root = True
        self.name_pool = None         # override of the hostile name alphabet
        self.type_suffix = "Type"
        self.mixed_odds = 24          # one complex type in mixed_odds + 1 is mixed
        self.components = False       # global element refs, substitution groups, named groups, attribute groups
        self.global_names = False     # element names are unique across the whole schema
        self.builtins = None          # override of the builtin simple types
        self.__dict__.update(kw)


class _B:
    def __init__(self, draw, o):
        self.d, self.o = draw, o
        self.types = {}
        self.elements = {}
        self.groups = {}
        self.attr_groups = {}
        self.n = 0
        self.in_mixed = False
        self.repeat_ctx = False
        self.flags = {}
        self.choice_ctx = 0
        self.plain = False
        self.uniform_forms = False
        self.global_used = set()
        self.used_types = set()
        self.nillable_in_choice = 0

    def fresh(self, pool, used):
        d = self.d
        if self.o.global_names and used is not self.used_types:
            used = self.global_used          # one element name, one declaration (regular documents for C13)
        for _ in range(20):
            nm = d(st.sampled_from(pool))
            key = nm.lower() if not self.o.hostile else nm
            if key not in used:
                used.add(key)
                return nm
        self.n += 1
        nm = f"n{self.n}"
        used.add(nm)
        return nm

    def names(self):
        return self.o.name_pool or (HOSTILE_NAMES if self.o.hostile else PLAIN_NAMES)

    def simple_type(self):
        d = self.d
        kind = d(st.sampled_from(["enum", "enum", "list", "restriction"] + (["union"] if self.o.union_types else [])))
        if kind == "enum":
            base = d(st.sampled_from(["string", "string", "int", "decimal", "token"]))
            if base in ("string", "token"):
                pool = ENUM_VALUES_HOSTILE if self.o.hostile else ["red", "green", "blue", "a b", "X", "x", "1"]
                vals = d(st.lists(st.sampled_from(pool), min_size=1, max_size=5, unique=True))
                if base == "token":
                    vals = list(dict.fromkeys(" ".join(v.split()) for v in vals if v.strip())) or ["tok"]
            elif base == "int":
                vals = [str(v) for v in d(st.lists(st.integers(-5, 50), min_size=1, max_size=4, unique=True))]
            else:
                vals = d(st.lists(st.sampled_from(["1.5", "2.50", "-0.1", "10"]), min_size=1, max_size=3, unique=True))
            return {"k": "enum", "base": base, "values": vals}
        if kind == "list":
            return {"k": "list", "item": d(st.sampled_from(["int", "double", "NMTOKEN", "boolean", "date"]))}
        if kind == "union":
            return {"k": "union", "members": d(st.sampled_from([["int", "string"], ["boolean", "date"], ["decimal", "NMTOKEN"], ["date", "dateTime", "string"]]))}
        base = d(st.sampled_from(["string", "int", "decimal"]))
        facets = {"string": {"maxLength": 40}, "int": {"minInclusive": -1000, "maxInclusive": 100000}, "decimal": {"fractionDigits": 6}}[base]
        return {"k": "restriction", "base": base, "facets": facets}

    def type_ref_simple(self):
        d = self.d
        if self.o.simple_types and d(st.integers(0, 3)) == 0:
            if self.types and d(st.booleans()):
                named = [n for n, t in self.types.items() if t["k"] != "complex"]
                if named:
                    return {"t": d(st.sampled_from(sorted(named)))}
            stp = self.simple_type()
            if d(st.booleans()):
                nm = self.fresh([n + self.o.type_suffix for n in self.names()], self.used_types)
                self.types[nm] = stp
                return {"t": nm}
            return {"anon": stp}
        return {"b": d(st.sampled_from(self.o.builtins or BUILTINS))}

    def attrs(self):
        d = self.d
        out, used = [], set()
        for _ in range(d(st.integers(0, 3))):
            tr = self.type_ref_simple()
            a = {"name": self.fresh(self.names(), used), "type": tr, "use": d(st.sampled_from(["optional", "optional", "required"])),
                 "form": d(st.sampled_from([None, None, True, False])) if self.o.attr_forms else None}
            # (no QName defaults: libxml2 binds their prefixes in the instance document, XSD in the schema document)
            if a["use"] == "optional" and d(st.integers(0, 3)) == 0 and (self.o.list_defaults or not self.is_list(tr)) and tr.get("b") != "QName":
                v = self.sample_value(tr, canonical=True)
                if v is not None and v.strip() == v and v != "":
                    kinds = (["default", "default"] if self.o.defaults else []) + (["fixed"] if self.o.fixed else [])
                    if kinds:
                        a[d(st.sampled_from(kinds))] = v
            out.append(a)
        return out

    def sample_value(self, tr, canonical=False):
        return sample_value(self.d, self, tr, canonical)

    def is_list(self, tr):
        if "b" in tr:
            return False
        t = tr.get("anon") or self.types[tr["t"]]
        return t["k"] == "list"

    def components(self):
        """Global declarations that content models may refer to: elements (some of them members of a substitution group),
        named model groups and attribute groups.  Their names are upper-cased so they never meet a local name."""
        d = self.d
        pool = [n.capitalize() + "G" for n in self.names()]
        taken = set()
        for _ in range(d(st.integers(0, 3))):
            nm = self.fresh(pool, taken)
            if d(st.integers(0, 2)) == 0:
                tn = self.fresh([n + self.o.type_suffix for n in self.names()], self.used_types)
                kids = set()
                self.types[tn] = {"k": "complex", "content": {"k": "sequence", "min": 1, "max": 1, "items": [self.simple_element(kids) for _ in range(d(st.integers(1, 2)))]},
                                  "attrs": [], "mixed": False, "base": None, "abstract": False, "any_attr": False, "simple": None}
                tr = {"t": tn}
            else:
                tr = {"b": d(st.sampled_from(self.o.builtins or BUILTINS))}
            self.elements[nm] = {"k": "element", "name": nm, "type": tr, "min": 1, "max": 1, "nillable": False, "form": None, "global": True}
            if d(st.integers(0, 2)) == 0:
                alt = self.fresh([nm + "Alt"], taken)
                self.elements[alt] = dict(self.elements[nm], name=alt, subst=nm)
        used = set()            # one pool for all groups: a type may refer to several of them
        for _ in range(d(st.integers(0, 2))):
            nm = self.fresh([n + "Group" for n in self.names()], taken)
            self.groups[nm] = {"k": d(st.sampled_from(["sequence", "choice"])), "min": 1, "max": 1,
                               "items": [dict(self.simple_element(used), name=self.fresh([x + "InG" for x in self.names()], used)) for _ in range(d(st.integers(1, 3)))]}
        for _ in range(d(st.integers(0, 2))):
            nm = self.fresh([n + "Attrs" for n in self.names()], taken)
            used = set()
            self.attr_groups[nm] = [{"name": self.fresh([x + "A" for x in self.names()], used), "type": {"b": d(st.sampled_from(self.o.builtins or BUILTINS))},
                                     "use": d(st.sampled_from(["optional", "required"])), "form": None} for _ in range(d(st.integers(1, 2)))]
            for a in self.attr_groups[nm]:
                if a["type"]["b"] == "QName":
                    a["type"] = {"b": "string"}

    def particle(self, depth, used, top=False, optional_ctx=False):
        d, o = self.d, self.o
        kind = d(st.sampled_from(["sequence", "sequence", "choice"] + (["all"] if top and o.all_groups and not self.in_mixed else [])))
        p = {"k": kind, "min": 1, "max": 1, "items": []}
        if kind != "all" and not self.plain:
            p["min"] = d(st.sampled_from([1, 1, 0]))
            p["max"] = d(st.sampled_from([1, 1, 1, 2, None]))
        if kind == "all":
            p["min"] = d(st.sampled_from([1, 1, 0]))        # <xs:all minOccurs="0">: the whole group may be absent
        # a quarter of the groups are "textbook" shapes: everything below them occurs exactly once, and choices nest more often
        prev_plain, self.plain = self.plain, self.plain or d(st.integers(0, 3)) == 0
        # inside an optional group or a choice an element may be absent whatever its own minOccurs
        optional_ctx = optional_ctx or p["min"] == 0 or kind == "choice"
        prev_rep, self.repeat_ctx = self.repeat_ctx, self.repeat_ctx or p["max"] != 1 or kind == "choice"
        prev_choice, self.choice_ctx = self.choice_ctx, self.choice_ctx + (1 if kind == "choice" else 0)
        nillables_before = self.nillable_in_choice
        n = d(st.integers(1, o.max_items))
        for i in range(n):
            sub = d(st.integers(0, 7))
            if (sub == 0 or (sub == 2 and kind == "choice" and self.plain)) and depth < 2 and kind != "all":
                p["items"].append(self.particle(depth + 1, used, optional_ctx=optional_ctx))
            elif sub == 3 and kind != "all" and not self.in_mixed and not self.uniform_forms and [g for g in self.elements.values() if g.get("global") and not g.get("subst")]:
                g = d(st.sampled_from(sorted(g["name"] for g in self.elements.values() if g.get("global") and not g.get("subst"))))
                key = "ref:" + g
                if key in used:
                    p["items"].append(self.element_decl(depth, used, in_all=False, optional_ctx=optional_ctx))
                else:
                    used.add(key)
                    p["items"].append({"k": "element", "ref": g, "min": 1 if self.plain else d(st.sampled_from([1, 1, 0])),
                                       "max": 1 if self.plain else d(st.sampled_from([1, 1, 3, None]))})
            elif sub == 4 and kind != "all" and not self.in_mixed and self.groups and depth < 2:
                g = d(st.sampled_from(sorted(self.groups)))
                key = "group:" + g
                if key in used:
                    p["items"].append(self.element_decl(depth, used, in_all=False, optional_ctx=optional_ctx))
                else:
                    used.add(key)
                    p["items"].append({"k": "group", "ref": g, "min": 1 if self.plain else d(st.sampled_from([1, 1, 0])),
                                       "max": 1 if self.plain else d(st.sampled_from([1, 1, 2, None]))})
            elif sub == 1 and o.wildcards and not self.in_mixed and kind == "sequence" and i == n - 1 and top and p["max"] == 1:
                p["items"].append({"k": "any", "ns": "##other", "min": d(st.sampled_from([0, 1])), "max": d(st.sampled_from([1, 2])), "pc": "lax"})
            else:
                p["items"].append(self.element_decl(depth, used, in_all=(kind == "all"), optional_ctx=optional_ctx))
        self.repeat_ctx = prev_rep
        self.plain = prev_plain
        self.choice_ctx = prev_choice
        if self.choice_ctx == 0 and self.nillable_in_choice - nillables_before >= 2:
            self.flags["nillables-in-one-choice"] = True
        return p

    def element_decl(self, depth, used, in_all=False, optional_ctx=False):
        d, o = self.d, self.o
        name = self.fresh(self.names(), used)
        e = {"k": "element", "name": name, "min": d(st.sampled_from([1, 1, 0])), "max": 1 if in_all else d(st.sampled_from([1, 1, 1, 3, None])),
             "nillable": o.nillable and d(st.integers(0, 5)) == 0, "form": None if self.uniform_forms else d(st.sampled_from([None, None, None, True, False]))}
        if self.plain:
            e["min"] = e["max"] = 1
        if e["nillable"] and e["max"] == 1 and (e["min"] == 0 or optional_ctx):
            # an optional nillable element cannot be told from an absent one by the generated model: absent comes
            # back as xsi:nil (recorded finding, DESIGN §5)
            e["nillable"] = False
        if self.in_mixed:
            e["nillable"] = False
        choice = d(st.integers(0, 9))
        if choice <= 3 and e["nillable"]:
            # an empty instance in a nillable field is written back as xsi:nil (recorded finding): nillable stays on simple types
            e["nillable"] = False
        if e["nillable"] and self.choice_ctx:
            self.nillable_in_choice += 1
        if choice <= 2 and depth < o.max_depth:
            # complex child: anonymous or named
            ct = self.finish(self.complex_type(depth + 1))
            if d(st.booleans()):
                nm = self.fresh([n + self.o.type_suffix for n in self.names()] + ["Base", "Derived"], self.used_types)
                self.types[nm] = ct
                e["type"] = {"t": nm}
                if o.extension and not self.in_mixed and d(st.integers(0, 2)) == 0 and not ct.get("simple") and not ct["mixed"] \
                        and not (ct["content"] and ct["content"]["k"] == "all"):
                    self.derive(nm)
            else:
                e["type"] = {"anon": ct}
        elif choice == 3 and o.recursion and self.current_named and depth >= 1:
            e["type"] = {"t": self.current_named}
            e["min"] = 0
        else:
            e["type"] = self.type_ref_simple()
            if e["nillable"] and self.is_list(e["type"]):
                e["nillable"] = False            # an empty token list in a nillable field is written as xsi:nil (recorded finding)
            if self.in_mixed and e["type"].get("b") in ("hexBinary", "base64Binary", "QName"):
                e["type"] = {"b": "string"}      # binary / QName children of mixed content are re-spelled without their format / prefix (recorded finding)
            # (an empty element of a list type does not take its default: recorded finding)
            if e["max"] == 1 and e["min"] == 1 and not e["nillable"] and d(st.integers(0, 6)) == 0 and (o.repeat_defaults or not self.repeat_ctx) and not self.in_mixed \
                    and not self.is_list(e["type"]) and e["type"].get("b") != "QName":
                v = self.sample_value(e["type"], canonical=True)
                kinds = (["default"] if o.defaults else []) + (["fixed"] if o.fixed else [])
                if v and v.strip() == v and kinds:
                    e[d(st.sampled_from(kinds))] = v
                    if self.repeat_ctx:
                        self.flags["default-in-group"] = True
        return e

    def derive(self, base_name):
        """A named extension of base_name (reachable through xsi:type)."""
        d = self.d
        base = self.types[base_name]
        used = {x["name"].lower() if not self.o.hostile else x["name"] for x in _all_elements(self, base)}
        ext = {"k": "complex", "content": {"k": "sequence", "min": 1, "max": 1, "items": [self.simple_element(used) for _ in range(d(st.integers(1, 2)))]},
               "attrs": [], "mixed": False, "base": base_name, "abstract": False, "any_attr": False, "simple": None}
        nm = self.fresh(["Derived", "Ext", "Special"] + [n + "Ext" for n in self.names()], self.used_types)
        self.types[nm] = ext
        if d(st.integers(0, 3)) == 0:
            base["abstract"] = True

    def simple_element(self, used):
        d = self.d
        return {"k": "element", "name": self.fresh(self.names(), used), "min": d(st.sampled_from([1, 0])), "max": d(st.sampled_from([1, 1, 2])),
                "nillable": False, "form": None, "type": {"b": d(st.sampled_from(self.o.builtins or BUILTINS))}}

    def complex_type(self, depth):
        d, o = self.d, self.o
        ct = {"k": "complex", "content": None, "attrs": self.attrs(), "mixed": False, "base": None, "abstract": False,
              "any_attr": o.wildcards and d(st.integers(0, 6)) == 0, "simple": None}
        if self.attr_groups and d(st.integers(0, 3)) == 0:
            ct["attr_groups"] = [d(st.sampled_from(sorted(self.attr_groups)))]
        shape = d(st.integers(0, 9))
        if shape == 0:
            ct["simple"] = d(st.sampled_from(["string", "decimal", "int", "date"]))
        elif shape == 1:
            pass                # empty content
        else:
            ct["mixed"] = bool(o.mixed and d(st.integers(0, o.mixed_odds)) == 0)
            prev, self.in_mixed = self.in_mixed, self.in_mixed or ct["mixed"]
            ct["content"] = self.template() if not ct["mixed"] and d(st.integers(0, 5)) == 0 else self.particle(0, set(), top=True)
            self.in_mixed = prev
        return ct

    def template(self):
        """Textbook content models (every schema primer has them); random names and simple types."""
        d, used = self.d, set()

        def el(min=1, max=1):
            return {"k": "element", "name": self.fresh(self.names(), used), "min": min, "max": max, "nillable": False, "form": None,
                    "type": self.type_ref_simple()}

        def grp(kind, items, min=1, max=1):
            return {"k": kind, "min": min, "max": max, "items": items}
        which = d(st.integers(0, 6))
        if which == 6:      # sequence(a, choice(sequence(b, c, d) | sequence(x, y)), e)
            return grp("sequence", [el(), grp("choice", [grp("sequence", [el() for _ in range(d(st.integers(2, 3)))]),
                                                          grp("sequence", [el() for _ in range(d(st.integers(2, 3)))])]), el()])
        if which == 0:      # choice(a | sequence(b, c[, d]))
            return grp("choice", [el(), grp("sequence", [el() for _ in range(d(st.integers(2, 3)))])], min=d(st.sampled_from([0, 1])))
        if which == 1:      # sequence(a, choice(b | c)*, d)
            return grp("sequence", [el(), grp("choice", [el(), el()], min=0, max=None), el()])
        if which == 2:      # choice(a | b | c)+
            return grp("choice", [el() for _ in range(d(st.integers(2, 4)))], max=None)
        if which == 3:      # sequence(a?, b*, c+)
            return grp("sequence", [el(min=0), el(min=0, max=None), el(max=None)])
        if which == 4:      # sequence(a, sequence(b, c)*, choice(d | sequence(e, f)))
            return grp("sequence", [el(), grp("sequence", [el(), el()], min=0, max=None), grp("choice", [el(), grp("sequence", [el(), el()])])])
        return grp("sequence", [grp("choice", [el(), el()]), grp("choice", [el(), el()], min=0)])

    def finish(self, ct):
        if ct["content"] is None and not ct["simple"] and not ct["attrs"]:
            # a complex type with nothing in it is generated as `object`; such a value has no matching choice in a compound
            # field (recorded finding): the generated empty types carry an attribute
            ct["attrs"] = [{"name": "flag", "type": {"b": "boolean"}, "use": "optional", "form": None}]
        if ct["content"]:
            # an element and an attribute of one type that share a name and both have anonymous types are generated as two
            # classes with one name (recorded finding): keep their names apart
            anon_elements = {e["name"] for e in _all_elements(self, ct) if "anon" in e["type"]}
            for a in ct["attrs"]:
                if "anon" in a["type"] and a["name"] in anon_elements:
                    a["name"] += "Attr"
        return ct


def local_elements(ct):
    """Every element declaration inside a complex type, anonymous types included."""
    out = []

    def walk(p):
        for it in p["items"]:
            if it["k"] == "element" and "ref" not in it:
                out.append(it)
                t = it["type"].get("anon")
                if t and t["k"] == "complex" and t.get("content"):
                    walk(t["content"])
            elif it["k"] in ("sequence", "choice", "all"):
                walk(it)
    if ct.get("content"):
        walk(ct["content"])
    return out


def _all_elements(b, ct):
    out = []

    def walk(p):
        for it in p["items"]:
            if it["k"] == "element" and "ref" not in it:
                out.append(it)
            elif it["k"] in ("sequence", "choice", "all"):
                walk(it)
    c = ct
    while c is not None:
        if c.get("content"):
            walk(c["content"])
        c = b.types.get(c["base"]) if c.get("base") else None
    return out


def sample_value(draw, b, tr, canonical=False):
    """A lexical value for a simple type reference (None when not simple)."""
    table = CANONICAL if canonical else SAMPLES
    if "b" in tr:
        vals = table.get(tr["b"]) or SAMPLES.get(tr["b"]) or ["x"]
        return draw(st.sampled_from(vals))
    t = tr.get("anon") or b.types[tr["t"]]
    if t["k"] == "enum":
        return draw(st.sampled_from(t["values"]))
    if t["k"] == "list":
        vals = table.get(t["item"]) or SAMPLES[t["item"]]
        return " ".join(draw(st.lists(st.sampled_from([v for v in vals if " " not in v and v]), min_size=1, max_size=3)))
    if t["k"] == "union":
        m = draw(st.sampled_from(t["members"]))
        return draw(st.sampled_from(table.get(m) or SAMPLES[m]))
    if t["k"] == "restriction":
        return draw(st.sampled_from({"string": ["abc", "x y"], "int": ["0", "-12", "77"], "decimal": ["1.5", "0.25"]}[t["base"]]))
    return None


@st.composite
def schema_specs(draw, opts=None):
    o = opts or Opts()
    b = _B(draw, o)
    b.used_types = set()
    b.current_named = None
    spec = {"tns": draw(st.sampled_from(["urn:t", "urn:t", "http://example.com/ns/1", None])) if o.namespaces else None,
            "efd": draw(st.booleans()), "afd": draw(st.integers(0, 4)) == 0}
    root_type_name = b.fresh(["RootType", "Doc", "Order"] + [n + o.type_suffix for n in b.names()], b.used_types)
    # a third of the root elements carry their complex type anonymously (the generated class then has a namespace of its own)
    anon_root = o.anon_root and draw(st.integers(0, 2)) == 0
    b.current_named = None if anon_root else root_type_name
    # below a global element with an anonymous type, a qualified element inside an unqualified one is written unqualified
    # (recorded finding, same root cause as C01 inherited-namespace-disagreement): no per-element forms there
    b.uniform_forms = anon_root
    if o.components:
        b.components()
    root_ct = b.complex_type(0)
    if root_ct.get("simple") or root_ct["content"] is None:
        root_ct["simple"] = None
        root_ct["content"] = b.particle(0, set(), top=True)
    root_ct = b.finish(root_ct)
    if not anon_root:
        b.types[root_type_name] = root_ct
    root_name = b.fresh(b.names(), b.global_used) if o.global_names else draw(st.sampled_from(b.names()))
    b.elements[root_name] = {"k": "element", "name": root_name, "type": {"anon": root_ct} if anon_root else {"t": root_type_name},
                             "min": 1, "max": 1, "nillable": False, "form": None}
    spec.update(types=b.types, elements=b.elements, root=root_name, flags=b.flags, groups=b.groups, attr_groups=b.attr_groups)
    return spec


# ---------------------------------------------------------------------------
# rendering


def _esc(v):
    return str(v).replace("&", "&amp;").replace("<", "&lt;").replace('"', "&quot;")


def render_xsd(spec):
    tns = spec["tns"]
    out = ['<?xml version="1.0" encoding="UTF-8"?>',
           f'<xs:schema xmlns:xs="{XS}"' + (f' targetNamespace="{tns}" xmlns:t="{tns}"' if tns else "") +
           f' elementFormDefault="{"qualified" if spec["efd"] else "unqualified"}"' +
           f' attributeFormDefault="{"qualified" if spec["afd"] else "unqualified"}">']
    pref = "t:" if tns else ""

    def tref(tr):
        return "xs:" + tr["b"] if "b" in tr else pref + tr["t"]

    def simple(t, name=None, ind="  "):
        nm = f' name="{_esc(name)}"' if name else ""
        out.append(f"{ind}<xs:simpleType{nm}>")
        if t["k"] == "enum":
            out.append(f'{ind}  <xs:restriction base="xs:{t["base"]}">')
            for v in t["values"]:
                out.append(f'{ind}    <xs:enumeration value="{_esc(v)}"/>')
            out.append(f"{ind}  </xs:restriction>")
        elif t["k"] == "list":
            out.append(f'{ind}  <xs:list itemType="xs:{t["item"]}"/>')
        elif t["k"] == "union":
            out.append(f'{ind}  <xs:union memberTypes="{" ".join("xs:" + m for m in t["members"])}"/>')
        else:
            out.append(f'{ind}  <xs:restriction base="xs:{t["base"]}">')
            for k, v in t["facets"].items():
                out.append(f'{ind}    <xs:{k} value="{v}"/>')
            out.append(f"{ind}  </xs:restriction>")
        out.append(f"{ind}</xs:simpleType>")

    def occurs(x):
        s = ""
        if x.get("min", 1) != 1:
            s += f' minOccurs="{x["min"]}"'
        if x.get("max", 1) != 1:
            s += f' maxOccurs="{"unbounded" if x["max"] is None else x["max"]}"'
        return s

    def attr(a, ind):
        s = f'{ind}<xs:attribute name="{_esc(a["name"])}"'
        if a.get("form") is not None:
            s += f' form="{"qualified" if a["form"] else "unqualified"}"'
        if a["use"] == "required":
            s += ' use="required"'
        for k in ("default", "fixed"):
            if k in a:
                s += f' {k}="{_esc(a[k])}"'
        if "anon" in a["type"]:
            out.append(s + ">")
            simple(a["type"]["anon"], None, ind + "  ")
            out.append(f"{ind}</xs:attribute>")
        else:
            out.append(s + f' type="{tref(a["type"])}"/>')

    def element(e, ind, top=False):
        if "ref" in e:
            out.append(f'{ind}<xs:element ref="{pref}{_esc(e["ref"])}"{occurs(e)}/>')
            return
        s = f'{ind}<xs:element name="{_esc(e["name"])}"'
        if top and e.get("subst"):
            s += f' substitutionGroup="{pref}{_esc(e["subst"])}"'
        if not top:
            s += occurs(e)
            if e.get("form") is not None:
                s += f' form="{"qualified" if e["form"] else "unqualified"}"'
        if e.get("nillable"):
            s += ' nillable="true"'
        for k in ("default", "fixed"):
            if k in e:
                s += f' {k}="{_esc(e[k])}"'
        if "anon" in e["type"]:
            out.append(s + ">")
            t = e["type"]["anon"]
            if t["k"] == "complex":
                complex_(t, None, ind + "  ")
            else:
                simple(t, None, ind + "  ")
            out.append(f"{ind}</xs:element>")
        else:
            out.append(s + f' type="{tref(e["type"])}"/>')

    def particle(p, ind):
        if p["k"] == "element":
            return element(p, ind)
        if p["k"] == "any":
            out.append(f'{ind}<xs:any namespace="{p["ns"]}" processContents="{p["pc"]}"{occurs(p)}/>')
            return
        if p["k"] == "group":
            out.append(f'{ind}<xs:group ref="{pref}{_esc(p["ref"])}"{occurs(p)}/>')
            return
        out.append(f'{ind}<xs:{p["k"]}{occurs(p)}>')
        for it in p["items"]:
            particle(it, ind + "  ")
        out.append(f'{ind}</xs:{p["k"]}>')

    def complex_(t, name, ind="  "):
        nm = f' name="{_esc(name)}"' if name else ""
        out.append(f'{ind}<xs:complexType{nm}' + (' mixed="true"' if t["mixed"] else "") + (' abstract="true"' if t.get("abstract") else "") + ">")
        inner = ind + "  "
        if t.get("simple"):
            out.append(f"{inner}<xs:simpleContent>")
            out.append(f'{inner}  <xs:extension base="xs:{t["simple"]}">')
            for a in t["attrs"]:
                attr(a, inner + "    ")
            for g in t.get("attr_groups", ()):
                out.append(f'{inner}    <xs:attributeGroup ref="{pref}{_esc(g)}"/>')
            if t.get("any_attr"):
                out.append(f'{inner}    <xs:anyAttribute namespace="##other" processContents="lax"/>')
            out.append(f"{inner}  </xs:extension>")
            out.append(f"{inner}</xs:simpleContent>")
        elif t.get("base"):
            out.append(f"{inner}<xs:complexContent>")
            out.append(f'{inner}  <xs:extension base="{pref}{t["base"]}">')
            if t["content"]:
                particle(t["content"], inner + "    ")
            for a in t["attrs"]:
                attr(a, inner + "    ")
            for g in t.get("attr_groups", ()):
                out.append(f'{inner}    <xs:attributeGroup ref="{pref}{_esc(g)}"/>')
            out.append(f"{inner}  </xs:extension>")
            out.append(f"{inner}</xs:complexContent>")
        else:
            if t["content"]:
                particle(t["content"], inner)
            for a in t["attrs"]:
                attr(a, inner)
            for g in t.get("attr_groups", ()):
                out.append(f'{inner}<xs:attributeGroup ref="{pref}{_esc(g)}"/>')
            if t.get("any_attr"):
                out.append(f'{inner}<xs:anyAttribute namespace="##other" processContents="lax"/>')
        out.append(f"{ind}</xs:complexType>")

    for name, e in spec["elements"].items():
        element(e, "  ", top=True)
    for name, t in spec["types"].items():
        if t["k"] == "complex":
            complex_(t, name)
        else:
            simple(t, name)
    for name, g in spec.get("groups", {}).items():
        out.append(f'  <xs:group name="{_esc(name)}">')
        out.append(f'    <xs:{g["k"]}>')
        for it in g["items"]:
            particle(it, "      ")
        out.append(f'    </xs:{g["k"]}>')
        out.append("  </xs:group>")
    for name, attrs in spec.get("attr_groups", {}).items():
        out.append(f'  <xs:attributeGroup name="{_esc(name)}">')
        for a in attrs:
            attr(a, "    ")
        out.append("  </xs:attributeGroup>")
    out.append("</xs:schema>")
    return "\n".join(out) + "\n"


# ---------------------------------------------------------------------------
# instances valid by construction


def expand(spec, p):
    """A particle with its reference resolved: a global element (marked `global`), or the content of a named group, under
    the occurrence written at the reference."""
    if p["k"] == "element" and "ref" in p:
        return dict(spec["elements"][p["ref"]], min=p["min"], max=p["max"])
    if p["k"] == "group":
        return dict(spec["groups"][p["ref"]], min=p["min"], max=p["max"])
    return p


def substitutes(spec, name):
    return sorted(n for n, e in spec["elements"].items() if e.get("subst") == name)


def element_ns(spec, e, top=False):
    if top or e.get("global"):
        return spec["tns"]
    form = e.get("form")
    qualified = spec["efd"] if form is None else form
    return spec["tns"] if qualified else None


def attr_ns(spec, a):
    form = a.get("form")
    qualified = spec["afd"] if form is None else form
    return spec["tns"] if qualified else None


def qn(ns, name):
    return "{%s}%s" % (ns, name) if ns else name


def resolve_type(spec, tr):
    if "b" in tr:
        return None
    return tr.get("anon") or spec["types"][tr["t"]]


def all_attrs(spec, ct):
    chain = []
    c = ct
    while c is not None:
        chain.append(c)
        c = spec["types"].get(c["base"]) if c.get("base") else None
    out = []
    for c in reversed(chain):
        out += c["attrs"]
        for g in c.get("attr_groups", ()):
            out += spec["attr_groups"][g]
    return out


def content_particles(spec, ct):
    """Particles of a complex type in document order: base content first (extension appends)."""
    chain = []
    c = ct
    while c is not None:
        chain.append(c)
        c = spec["types"].get(c["base"]) if c.get("base") else None
    return [c["content"] for c in reversed(chain) if c.get("content")]


def subtypes(spec, name):
    return [n for n, t in spec["types"].items() if t["k"] == "complex" and t.get("base") == name]


class InstanceGen:
    def __init__(self, draw, spec, canonical=False, max_nodes=60):
        self.d, self.spec, self.canonical, self.budget = draw, spec, canonical, max_nodes

    class _T:
        types = None
    def value(self, tr):
        b = self._T()
        b.types = self.spec["types"]
        return sample_value(self.d, b, tr, self.canonical)

    def document(self):
        spec = self.spec
        e = spec["elements"][spec["root"]]
        nsmap = {"xsi": XSI, "xs": XS}
        if spec["tns"]:
            nsmap["t"] = spec["tns"]
        root = etree.Element(qn(spec["tns"], e["name"]), nsmap=nsmap)
        self.fill(root, e, 0)
        return root

    def fill(self, el, e, depth):
        d, spec = self.d, self.spec
        tr = e["type"]
        t0 = resolve_type(spec, tr)
        if e.get("nillable") and d(st.integers(0, 3)) == 0 and not (t0 is not None and t0.get("abstract")):
            t = resolve_type(spec, tr)
            if t is None or t["k"] != "complex" or not any(a["use"] == "required" for a in all_attrs(spec, t)):
                # (a nil element that carries attributes is parsed to None, the attributes are lost: recorded finding)
                el.set(qn(XSI, "nil"), "true")
                return
        t = resolve_type(spec, tr)
        if t is None or t["k"] != "complex":
            if "fixed" in e:
                el.text = e["fixed"] if d(st.booleans()) else None
            elif "default" in e and d(st.integers(0, 2)) == 0:
                el.text = None
            else:
                el.text = self.value(tr)
                if e.get("nillable") and not el.text:
                    # an empty value in a nillable element is read back as nil (recorded finding)
                    el.text = {"hexBinary": "0FB7", "base64Binary": "AA=="}.get(tr.get("b"), "x")
            return
        # complex: maybe substitute a derived type with xsi:type
        tname = tr.get("t")
        if tname:
            subs = subtypes(spec, tname)
            if subs and (t.get("abstract") or d(st.integers(0, 2)) == 0):
                sub = d(st.sampled_from(sorted(subs)))
                el.set(qn(XSI, "type"), ("t:" if spec["tns"] else "") + sub)
                t = spec["types"][sub]
        self.attributes(el, t)
        if t.get("simple"):
            el.text = self.value({"b": t["simple"]})
            return
        mixed = t["mixed"]
        if mixed and d(st.booleans()):
            el.text = "lead text "
        for p in content_particles(spec, t):
            self.particle(el, p, depth, mixed)

    def attributes(self, el, t, required_only=False):
        d, spec = self.d, self.spec
        for a in all_attrs(spec, t):
            if a["use"] == "required" or (not required_only and d(st.booleans())):
                v = a.get("fixed") or self.value(a["type"])
                if "default" in a and d(st.integers(0, 3)) == 0:
                    v = a["default"]
                el.set(qn(attr_ns(spec, a), a["name"]), v)
        if t.get("any_attr") and not required_only and d(st.booleans()):
            el.set("{urn:other}extra", "x")

    def occurrences(self, x, depth):
        d = self.d
        lo = x.get("min", 1)
        hi = x.get("max", 1)
        hi = lo + 2 if hi is None else hi
        if self.budget <= 0 or depth > 4:
            return lo
        return d(st.integers(lo, max(lo, min(hi, lo + 2))))

    def particle(self, parent, p, depth, mixed):
        d, spec = self.d, self.spec
        p = expand(spec, p)
        if p["k"] == "element":
            for _ in range(self.occurrences(p, depth)):
                self.budget -= 1
                q = p
                if p.get("global") and substitutes(spec, p["name"]) and d(st.booleans()):
                    q = dict(spec["elements"][d(st.sampled_from(substitutes(spec, p["name"])))], min=p["min"], max=p["max"])
                child = etree.SubElement(parent, qn(element_ns(spec, q), q["name"]))
                self.fill(child, q, depth + 1)
                if mixed and d(st.integers(0, 2)) == 0:
                    child.tail = " mixed text "
            return
        if p["k"] == "any":
            for _ in range(self.occurrences(p, depth)):
                w = etree.SubElement(parent, "{urn:other}wild", nsmap={"o": "urn:other"})
                w.set("k", "v")
                if d(st.booleans()):
                    etree.SubElement(w, "{urn:other}inner").text = "t"
                else:
                    w.text = "text"
            return
        for _ in range(self.occurrences(p, depth)):
            if p["k"] == "choice":
                self.particle(parent, d(st.sampled_from(p["items"])) if not _must_skip(p) else p["items"][0], depth, mixed)
            elif p["k"] == "all":
                for it in d(st.permutations(p["items"])):
                    self.particle(parent, it, depth, mixed)
            else:
                for it in p["items"]:
                    self.particle(parent, it, depth, mixed)


def _must_skip(p):
    return False


# ---------------------------------------------------------------------------
# schema-aware typed walk (for comparing documents as typed infosets)


def declared_children(spec, ct):
    """{qname: element decl} for all element declarations reachable in the type's content model (names are unique per type)."""
    out = {}

    def walk(p):
        p = expand(spec, p)
        if p["k"] == "element":
            out[qn(element_ns(spec, p), p["name"])] = p
            if p.get("global"):
                for alt in substitutes(spec, p["name"]):
                    out[qn(spec["tns"], alt)] = dict(spec["elements"][alt], min=p["min"], max=p["max"])
        elif p["k"] in ("sequence", "choice", "all"):
            for it in p["items"]:
                walk(it)
    for p in content_particles(spec, ct):
        walk(p)
    return out


def typed_leaf(spec, tr, text, nsmap):
    """Canonical value of a simple-typed lexical form (so '1.50'/'1.5', 'true'/'1', prefixes do not matter)."""
    from vlib import xsdref as X
    text = text or ""
    if "b" in tr:
        return _builtin_value(tr["b"], text, nsmap)
    t = tr.get("anon") or spec["types"][tr["t"]]
    if t["k"] == "enum":
        return _builtin_value(t["base"], text, nsmap)
    if t["k"] == "list":
        return ("list",) + tuple(_builtin_value(t["item"], tok, nsmap) for tok in text.split())
    if t["k"] == "union":
        for m in t["members"]:
            v = _builtin_value(m, text, nsmap, strict=True)
            if v is not None:
                return v
        return ("str", text)
    return _builtin_value(t["base"], text, nsmap)


def _builtin_value(b, text, nsmap, strict=False):
    from vlib import xsdref as X
    import base64
    s = text.strip(X.WS)
    num = {"int": "integer", "integer": "integer", "long": "integer", "short": "integer", "unsignedByte": "integer", "positiveInteger": "integer",
           "decimal": "decimal", "double": "double", "float": "double", "boolean": "boolean", "date": "date", "dateTime": "dateTime", "time": "time",
           "duration": "duration", "hexBinary": "hexBinary"}
    if b in num:
        v = X.recognise(num[b], s)
        if v is X.INVALID:
            return None if strict else ("invalid", b, text)
        if num[b] == "double" and v != v:
            return ("double", "NaN")
        if num[b] in ("date", "dateTime", "time"):
            return (num[b],) + _timeline(num[b], v)
        return (num[b], v)
    if b in ("gYear", "gYearMonth", "gMonthDay"):
        shape, v = X.recognise_period(s)
        return None if (v is X.INVALID and strict) else ("period", v if v is not X.INVALID else text)
    if b == "base64Binary":
        try:
            return ("bytes", base64.b64decode("".join(s.split()), validate=True))
        except Exception:
            return None if strict else ("invalid", b, text)
    if b == "QName":
        if ":" in s:
            p, _, l = s.partition(":")
            return ("qname", nsmap.get(p, "?" + p), l)
        return ("qname", nsmap.get(None), s)
    if b in ("token", "NMTOKEN", "language", "anyURI", "normalizedString"):
        return ("str", " ".join(s.split()) if b != "normalizedString" else text.replace("\t", " ").replace("\n", " "))
    return ("str", text)


def _timeline(kind, v):
    # equal instants spelled with 24:00:00 or another fraction length are the same value; keep fields otherwise
    if kind == "dateTime" and v[3] == 24:
        from vlib import xsdref as X
        return tuple(X.datetime_from_timeline(X.timeline_ns(v), v[7]))
    return tuple(v)


def walk(spec, root, augment_defaults=True):
    """Typed canonical tree of a document that is valid for the spec."""
    e = spec["elements"][root.tag.rsplit("}", 1)[-1]] if root.tag.rsplit("}", 1)[-1] in spec["elements"] else spec["elements"][spec["root"]]
    return _walk_el(spec, root, e, augment_defaults)


def schema_nsmap(spec):
    return {"xs": XS, **({"t": spec["tns"]} if spec["tns"] else {})}


def _walk_el(spec, el, e, aug):
    nsmap = el.nsmap
    attrs = dict(el.attrib)
    nil = attrs.pop(qn(XSI, "nil"), None) in ("true", "1")
    xsi_type = attrs.pop(qn(XSI, "type"), None)
    for k in [k for k in attrs if k.startswith("{%s}" % XSI)]:
        attrs.pop(k)
    t = resolve_type(spec, e["type"])
    if xsi_type and t is not None and t["k"] == "complex":
        local = xsi_type.split(":")[-1]
        if local in spec["types"]:
            t = spec["types"][local]
    if t is None or t["k"] != "complex":
        text = el.text
        if not nil and not (text or "") and aug and ("fixed" in e or "default" in e):
            # a default is a value of the schema document: its QName prefixes are bound there, not in the instance
            text, nsmap = e.get("fixed", e.get("default")), schema_nsmap(spec)
        return ("el", el.tag, (), ("nil",) if nil else (typed_leaf(spec, e["type"], text, nsmap),), xsi_type.split(":")[-1] if xsi_type else None)
    decl_attrs = {qn(attr_ns(spec, a), a["name"]): a for a in all_attrs(spec, t)}
    out_attrs = []
    for k, v in attrs.items():
        a = decl_attrs.get(k)
        out_attrs.append((k, typed_leaf(spec, a["type"], v, nsmap) if a else ("raw", v)))
    if aug:
        for k, a in decl_attrs.items():
            if k not in attrs and ("default" in a or "fixed" in a):
                out_attrs.append((k, typed_leaf(spec, a["type"], a.get("default", a.get("fixed")), schema_nsmap(spec))))
    out_attrs.sort(key=repr)
    if nil:
        return ("el", el.tag, tuple(out_attrs), ("nil",), None)
    if t.get("simple"):
        return ("el", el.tag, tuple(out_attrs), (typed_leaf(spec, {"b": t["simple"]}, el.text, nsmap),), None)
    decls = declared_children(spec, t)
    kids = []
    text_parts = [el.text or ""]
    for c in el:
        if not isinstance(c.tag, str):
            text_parts.append(c.tail or "")
            continue
        d = decls.get(c.tag)
        if d is not None:
            kids.append(_walk_el(spec, c, d, aug))
        else:
            kids.append(_generic(c))
        text_parts.append(c.tail or "")
    mixed_text = "".join(text_parts)
    if t["mixed"]:
        kids.append(("text", " ".join(mixed_text.split())))
    return ("el", el.tag, tuple(out_attrs), tuple(kids), xsi_type.split(":")[-1] if xsi_type else None)


def _generic(el):
    return ("any", el.tag, tuple(sorted(el.attrib.items())), tuple([_generic(c) for c in el if isinstance(c.tag, str)] + ([("text", " ".join((el.text or "").split()))] if (el.text or "").strip() else [])), None)


def unordered(tree):
    if tree[0] in ("el", "any"):
        return (tree[0], tree[1], tree[2], tuple(sorted((unordered(k) if isinstance(k, tuple) and k and k[0] in ("el", "any") else k for k in tree[3]), key=repr)), tree[4])
    return tree


def tree_diff(a, b, path=""):
    if a == b:
        return None
    if not (isinstance(a, tuple) and isinstance(b, tuple) and a and b and a[0] in ("el", "any") and b[0] in ("el", "any")):
        return f"{path}: {a!r} != {b!r}"[:400]
    here = f"{path}/{a[1].rsplit('}', 1)[-1]}"
    if a[1] != b[1]:
        return f"{path}: element {a[1]} != {b[1]}"
    if a[2] != b[2]:
        return f"{here}: attributes {a[2]!r} != {b[2]!r}"[:500]
    if a[4] != b[4]:
        return f"{here}: xsi:type {a[4]} != {b[4]}"
    if len(a[3]) != len(b[3]):
        nm = lambda t: [x[1].rsplit("}", 1)[-1] if isinstance(x, tuple) and x and x[0] in ("el", "any") else x for x in t]     # noqa: E731
        return f"{here}: children {nm(a[3])} != {nm(b[3])}"[:500]
    for x, y in zip(a[3], b[3]):
        r = tree_diff(x, y, here)
        if r:
            return r
    return f"{here}: differ"


def count_nodes(tree):
    return 1 + sum(count_nodes(k) for k in tree[3] if isinstance(k, tuple) and k and k[0] in ("el", "any"))


def features(spec):
    """Feature families a schema uses (for non-triviality rules and labels)."""
    f = set()
    if spec["tns"]:
        f.add("target-namespace")
    if not spec["efd"]:
        f.add("unqualified-locals")

    def walk_p(p):
        if p["k"] == "element" and "ref" in p:
            f.add("element-ref")
            if substitutes(spec, p["ref"]):
                f.add("substitution-group")
        if p["k"] == "group":
            f.add("named-group")
        p = expand(spec, p)
        if p["k"] == "element":
            if p.get("max", 1) != 1:
                f.add("repeating-element")
            if p.get("min", 1) == 0:
                f.add("optional-element")
            if p.get("nillable"):
                f.add("nillable")
            if p.get("form") is not None:
                f.add("per-declaration-form")
            if "default" in p or "fixed" in p:
                f.add("element-default/fixed")
            t = p["type"]
            if "anon" in t:
                f.add("anonymous-type")
                walk_t(t["anon"])
            return
        if p["k"] == "any":
            f.add("xs:any")
            return
        f.add(p["k"])
        if p.get("max", 1) != 1:
            f.add("repeating-" + p["k"])
        for it in p["items"]:
            if it["k"] in ("sequence", "choice"):
                f.add("nested-group")
            walk_p(it)

    def walk_t(t):
        if t["k"] != "complex":
            f.add("simple-" + t["k"])
            return
        if t.get("base"):
            f.add("extension")
        if t.get("abstract"):
            f.add("abstract")
        if t.get("mixed"):
            f.add("mixed")
        if t.get("simple"):
            f.add("simple-content")
        if t.get("any_attr"):
            f.add("anyAttribute")
        if t.get("attr_groups"):
            f.add("attribute-group")
        for a in t["attrs"]:
            f.add("attribute")
            if "default" in a or "fixed" in a:
                f.add("attribute-default/fixed")
            if "anon" in a["type"]:
                walk_t(a["type"]["anon"])
            elif "t" in a["type"]:
                f.add("named-simple-type")
        if t.get("content"):
            walk_p(t["content"])
    for t in all_types(spec):
        walk_t(t)
    return f


def all_types(spec):
    """Named types plus the anonymous types of the global elements."""
    return list(spec["types"].values()) + [e["type"]["anon"] for e in spec["elements"].values() if "anon" in e["type"]]
