"""Reference lexical/value model for the XSD simple types xsdata supports (DESIGN §3.5).

Written from the XSD 1.1 part 2 grammar; independent of xsdata's converter.py / dates.py.
Three things per type:
  * `lex_<type>()`  : Hypothesis strategy of (lexical form, value) pairs, valid *by construction*
  * `recognise(t, s)`: value or INVALID, from a regex + range checks (used on xsdata's output)
  * value representation: plain Python data (ints, Fractions, tuples) - never xsdata objects

Values
  integer  -> int                 decimal -> Fraction            boolean -> bool
  double   -> float (correctly rounded from the exact Fraction; inf/nan)
  date     -> (year, month, day, offset|None)            [astronomical year numbering, XSD 1.1]
  time     -> (hour, minute, second, frac_ns, offset|None)
  dateTime -> (year, month, day, hour, minute, second, frac_ns, offset|None)
  duration -> (negative, Y|None, M|None, D|None, H|None, Mi|None, seconds Fraction|None)
  gYear/gYearMonth/gMonth/gMonthDay/gDay -> (year|None, month|None, day|None, offset|None)
"""
import re
from fractions import Fraction

from hypothesis import strategies as st

INVALID = object()
WS = " \t\r\n"

# ---------------------------------------------------------------------------
# shared pieces

ws = st.text(alphabet=WS, max_size=3)


def wrap_ws(strategy):
    """Surround a (lex, value) pair with XML whitespace (whiteSpace=collapse types)."""
    return st.tuples(ws, strategy, ws).map(lambda t: (t[0] + t[1][0] + t[2], t[1][1]))


digits = st.text(alphabet="0123456789", min_size=1, max_size=12)
DIG = "0123456789"


def _unsigned():
    # integers with boundary values and leading zeros
    boundaries = [0, 1, 9, 10, 127, 128, 255, 256, 32767, 32768, 65535, 65536, 2**31 - 1, 2**31, 2**32 - 1,
                  2**32, 2**63 - 1, 2**63, 2**64 - 1, 2**64, 10**18, 10**30]
    return st.one_of(st.sampled_from(boundaries), st.integers(0, 10**6), st.integers(0, 10**40))


@st.composite
def lex_integer(draw):
    n = draw(_unsigned())
    zeros = draw(st.sampled_from(["", "", "0", "000"]))
    sign = draw(st.sampled_from(["", "", "+", "-"]))
    lex = sign + zeros + str(n)
    return lex, (-n if sign == "-" else n)


@st.composite
def lex_decimal(draw):
    shape = draw(st.sampled_from(["int", "int.", "int.frac", ".frac"]))
    sign = draw(st.sampled_from(["", "", "+", "-"]))
    ip = draw(st.text(alphabet=DIG, min_size=1, max_size=draw(st.sampled_from([1, 3, 25]))))
    fp = draw(st.text(alphabet=DIG, min_size=1, max_size=draw(st.sampled_from([1, 3, 25]))))
    if shape == "int":
        body, val = ip, Fraction(int(ip))
    elif shape == "int.":
        body, val = ip + ".", Fraction(int(ip))
    elif shape == "int.frac":
        body, val = ip + "." + fp, Fraction(int(ip + fp), 10 ** len(fp))
    else:
        body, val = "." + fp, Fraction(int(fp), 10 ** len(fp))
    return sign + body, (-val if sign == "-" else val)


def frac_to_float(fr: Fraction) -> float:
    try:
        return float(fr)          # correctly rounded (CPython long division)
    except OverflowError:
        return float("inf") if fr > 0 else float("-inf")


@st.composite
def lex_double(draw):
    kind = draw(st.sampled_from(["num", "num", "num", "num", "special"]))
    if kind == "special":
        return draw(st.sampled_from([("INF", float("inf")), ("+INF", float("inf")), ("-INF", float("-inf")),
                                     ("NaN", float("nan"))]))
    lex, val = draw(lex_decimal())
    if draw(st.booleans()):
        e = draw(st.one_of(st.integers(-30, 30), st.integers(-330, 310), st.sampled_from([-400, 400, 308, 309, -323, -324])))
        esign = "-" if e < 0 else draw(st.sampled_from(["", "+"]))
        ez = draw(st.sampled_from(["", "0"]))
        lex += draw(st.sampled_from("eE")) + esign + ez + str(abs(e))
        val = val * (Fraction(10) ** e)
    f = frac_to_float(val)
    if val == 0 and lex.lstrip().startswith("-"):
        f = -0.0
    return lex, f


lex_boolean = st.sampled_from([("true", True), ("false", False), ("1", True), ("0", False)])

HEXD = "0123456789abcdefABCDEF"


@st.composite
def lex_hex(draw):
    data = draw(st.binary(max_size=12))
    out = []
    for b in data:
        h = "%02x" % b
        out.append("".join(c.upper() if draw(st.booleans()) else c for c in h))
    return "".join(out), data


@st.composite
def lex_base64(draw):
    import base64
    data = draw(st.binary(max_size=20))
    enc = base64.b64encode(data).decode()
    # XSD base64Binary allows a single space between characters / groups (and collapse strips the rest)
    if enc and draw(st.booleans()):
        k = draw(st.integers(1, max(1, len(enc) // 4))) * 4
        sep = draw(st.sampled_from([" ", "\n", "\r\n", "\t"]))
        enc = sep.join(enc[i:i + k] for i in range(0, len(enc), k))
    return enc, data


# ---------------------------------------------------------------------------
# calendar

def is_leap(y):
    return y % 4 == 0 and (y % 100 != 0 or y % 400 == 0)


def days_in_month(y, m):
    if m == 2:
        return 29 if (y is None or is_leap(y)) else 28
    return 30 if m in (4, 6, 9, 11) else 31


def days_from_civil(y, m, d):
    """Days since 1970-01-01 in the proleptic Gregorian calendar (astronomical years)."""
    y -= m <= 2
    era = y // 400
    yoe = y - era * 400
    doy = (153 * (m + (-3 if m > 2 else 9)) + 2) // 5 + d - 1
    doe = yoe * 365 + yoe // 4 - yoe // 100 + doy
    return era * 146097 + doe - 719468


def timeline_ns(dt):
    """dateTime value -> integer nanoseconds on the UTC timeline (offset None treated as 0)."""
    y, mo, d, h, mi, s, ns, off = dt
    return ((days_from_civil(y, mo, d) * 86400 + h * 3600 + mi * 60 + s - (off or 0) * 60) * 10**9) + ns


def time_ns(t):
    h, mi, s, ns, off = t
    return (h * 3600 + mi * 60 + s - (off or 0) * 60) * 10**9 + ns


years = st.one_of(
    st.sampled_from([0, 1, 4, 100, 400, 1582, 1600, 1900, 1970, 1999, 2000, 2001, 2024, 2100, 9999, 10000,
                     -1, -4, -100, -400, -9999, -10000, 123456789012]),
    st.integers(-9999, 9999), st.integers(-10**12, 10**12))


def fmt_year(draw, y):
    s = "%04d" % abs(y)
    sign = "-" if y < 0 else ""
    if y == 0 and draw(st.booleans()):
        sign = "-"             # '-0000' is in the XSD 1.1 lexical space and denotes year 0
    return sign + s


offsets = st.one_of(st.none(), st.sampled_from([0, 60, -60, 840, -840, 330, -345, 1, -1, 839, -839]),
                    st.integers(-839, 839))


def fmt_offset(draw, off):
    if off is None:
        return ""
    if off == 0:
        return draw(st.sampled_from(["Z", "Z", "+00:00", "-00:00"]))
    a = abs(off)
    return "%s%02d:%02d" % ("-" if off < 0 else "+", a // 60, a % 60)


@st.composite
def date_fields(draw):
    y = draw(years)
    m = draw(st.integers(1, 12))
    d = draw(st.one_of(st.integers(1, days_in_month(y, m)), st.just(days_in_month(y, m))))
    return y, m, d


@st.composite
def time_fields(draw):
    kind = draw(st.sampled_from(["n", "n", "n", "n", "n", "24"]))
    if kind == "24":
        frac = draw(st.sampled_from(["", "", ".0", ".000", ".000000000"]))
        return (24, 0, 0, 0), "24:00:00" + frac
    h, mi, s = draw(st.integers(0, 23)), draw(st.integers(0, 59)), draw(st.integers(0, 59))
    nd = draw(st.integers(0, 9))
    if nd == 0:
        return (h, mi, s, 0), "%02d:%02d:%02d" % (h, mi, s)
    fd = draw(st.text(alphabet=DIG, min_size=nd, max_size=nd))
    ns = int(fd.ljust(9, "0"))
    return (h, mi, s, ns), "%02d:%02d:%02d.%s" % (h, mi, s, fd)


@st.composite
def lex_date(draw):
    y, m, d = draw(date_fields())
    off = draw(offsets)
    return "%s-%02d-%02d%s" % (fmt_year(draw, y), m, d, fmt_offset(draw, off)), (y, m, d, off)


@st.composite
def lex_time(draw):
    (h, mi, s, ns), lx = draw(time_fields())
    off = draw(offsets)
    return lx + fmt_offset(draw, off), (h, mi, s, ns, off)


@st.composite
def lex_datetime(draw):
    y, m, d = draw(date_fields())
    (h, mi, s, ns), lx = draw(time_fields())
    off = draw(offsets)
    return "%s-%02d-%02dT%s%s" % (fmt_year(draw, y), m, d, lx, fmt_offset(draw, off)), (y, m, d, h, mi, s, ns, off)


@st.composite
def lex_duration(draw):
    n = st.one_of(st.integers(0, 99), st.integers(0, 10**12))
    present = draw(st.lists(st.booleans(), min_size=6, max_size=6))
    if not any(present):
        present[draw(st.integers(0, 5))] = True
    Y, M, D, H, Mi = [draw(n) if p else None for p in present[:5]]
    S = Slex = None
    if present[5]:
        ip = draw(st.text(alphabet=DIG, min_size=1, max_size=6))
        if draw(st.booleans()):
            fp = draw(st.text(alphabet=DIG, min_size=1, max_size=9))
            Slex, S = ip + "." + fp, Fraction(int(ip + fp), 10 ** len(fp))
        else:
            Slex, S = ip, Fraction(int(ip))
    neg = draw(st.booleans())
    lex = ("-" if neg else "") + "P"
    for v, c in ((Y, "Y"), (M, "M"), (D, "D")):
        if v is not None:
            lex += "%d%s" % (v, c) if not draw(st.booleans()) else "0%d%s" % (v, c)
    if H is not None or Mi is not None or S is not None:
        lex += "T"
        for v, c in ((H, "H"), (Mi, "M")):
            if v is not None:
                lex += "%d%s" % (v, c)
        if S is not None:
            lex += Slex + "S"
    return lex, (neg, Y, M, D, H, Mi, S)


@st.composite
def lex_period(draw):
    shape = draw(st.sampled_from(["gYear", "gYearMonth", "gMonth", "gMonthDay", "gDay"]))
    off = draw(offsets)
    o = fmt_offset(draw, off)
    if shape == "gYear":
        y = draw(years)
        return fmt_year(draw, y) + o, (y, None, None, off), shape
    if shape == "gYearMonth":
        y, m = draw(years), draw(st.integers(1, 12))
        return "%s-%02d%s" % (fmt_year(draw, y), m, o), (y, m, None, off), shape
    if shape == "gMonth":
        m = draw(st.integers(1, 12))
        return "--%02d%s" % (m, o), (None, m, None, off), shape
    if shape == "gMonthDay":
        m = draw(st.integers(1, 12))
        d = draw(st.integers(1, days_in_month(None, m)))
        return "--%02d-%02d%s" % (m, d, o), (None, m, d, off), shape
    d = draw(st.integers(1, 31))
    return "---%02d%s" % (d, o), (None, None, d, off), shape


# ---------------------------------------------------------------------------
# recognisers (regex + range checks) - used on strings xsdata *produces*

_TZ = r"(?P<tz>Z|[+-](?:(?:0[0-9]|1[0-3]):[0-5][0-9]|14:00))?"
_YEAR = r"(?P<y>-?(?:[1-9][0-9]{3,}|0[0-9]{3}))"
_MON = r"(?P<mo>0[1-9]|1[0-2])"
_DAY = r"(?P<d>0[1-9]|[12][0-9]|3[01])"
_TIME = r"(?:(?P<h>[01][0-9]|2[0-3]):(?P<mi>[0-5][0-9]):(?P<s>[0-5][0-9])(?:\.(?P<f>[0-9]+))?|(?P<h24>24):00:00(?:\.0+)?)"

RX = {
    "integer": re.compile(r"[+-]?[0-9]+"),
    "decimal": re.compile(r"[+-]?(?:[0-9]+(?:\.[0-9]*)?|\.[0-9]+)"),
    "double": re.compile(r"[+-]?(?:[0-9]+(?:\.[0-9]*)?|\.[0-9]+)(?:[eE][+-]?[0-9]+)?|[+-]?INF|NaN"),
    "boolean": re.compile(r"true|false|1|0"),
    "hexBinary": re.compile(r"(?:[0-9a-fA-F]{2})*"),
    "date": re.compile(_YEAR + "-" + _MON + "-" + _DAY + _TZ),
    "time": re.compile(_TIME + _TZ),
    "dateTime": re.compile(_YEAR + "-" + _MON + "-" + _DAY + "T" + _TIME + _TZ),
    "duration": re.compile(r"(?P<neg>-)?P(?:(?P<Y>[0-9]+)Y)?(?:(?P<M>[0-9]+)M)?(?:(?P<D>[0-9]+)D)?"
                           r"(?P<T>T(?:(?P<H>[0-9]+)H)?(?:(?P<Mi>[0-9]+)M)?(?:(?P<S>[0-9]+(?:\.[0-9]+)?)S)?)?"),
    "gYear": re.compile(_YEAR + _TZ),
    "gYearMonth": re.compile(_YEAR + "-" + _MON + _TZ),
    "gMonth": re.compile("--" + _MON + _TZ),
    "gMonthDay": re.compile("--" + _MON + "-" + _DAY + _TZ),
    "gDay": re.compile("---" + _DAY + _TZ),
}


def _tz(m):
    tz = m.group("tz")
    if tz is None:
        return None
    if tz == "Z":
        return 0
    v = int(tz[1:3]) * 60 + int(tz[4:6])
    return -v if tz[0] == "-" else v


def _time(m):
    if m.group("h24"):
        return 24, 0, 0, 0
    f = m.group("f")
    if f is not None and len(f.rstrip("0")) > 9:
        return None  # beyond nanosecond precision: outside what xsdata documents
    ns = int((f or "0")[:9].ljust(9, "0"))
    return int(m.group("h")), int(m.group("mi")), int(m.group("s")), ns


def collapse(s):
    return s.strip(WS)


def recognise(t, s, collapse_ws=True):
    """Return the XSD value of lexical form `s` for type `t`, or INVALID."""
    if collapse_ws:
        s = collapse(s)
    rx = RX.get(t)
    if rx is None:
        raise KeyError(t)
    m = rx.fullmatch(s)
    if not m:
        return INVALID
    if t == "integer":
        return int(s)
    if t == "decimal":
        return Fraction(s if not s.endswith(".") else s + "0") if s not in ("+", "-") else INVALID
    if t == "double":
        if s.endswith("INF"):
            return float("-inf") if s[0] == "-" else float("inf")
        if s == "NaN":
            return float("nan")
        mant, _, exp = s.replace("E", "e").partition("e")
        if mant.endswith("."):
            mant += "0"
        fr = Fraction(mant) * Fraction(10) ** int(exp or 0)
        f = frac_to_float(fr)
        return -0.0 if fr == 0 and s[0] == "-" else f
    if t == "boolean":
        return s in ("true", "1")
    if t == "hexBinary":
        return bytes.fromhex(s)
    if t in ("date", "dateTime"):
        y, mo, d = int(m.group("y")), int(m.group("mo")), int(m.group("d"))
        if d > days_in_month(y, mo):
            return INVALID
        if t == "date":
            return y, mo, d, _tz(m)
        tm = _time(m)
        return INVALID if tm is None else (y, mo, d) + tm + (_tz(m),)
    if t == "time":
        tm = _time(m)
        return INVALID if tm is None else tm + (_tz(m),)
    if t == "duration":
        g = m.groupdict()
        comps = [g[k] for k in ("Y", "M", "D", "H", "Mi", "S")]
        if all(c is None for c in comps):
            return INVALID
        if g["T"] is not None and all(g[k] is None for k in ("H", "Mi", "S")):
            return INVALID
        S = Fraction(g["S"]) if g["S"] is not None else None
        return (g["neg"] is not None,) + tuple(int(c) if c is not None else None for c in comps[:5]) + (S,)
    if t == "gYear":
        return int(m.group("y")), None, None, _tz(m)
    if t == "gYearMonth":
        return int(m.group("y")), int(m.group("mo")), None, _tz(m)
    if t == "gMonth":
        return None, int(m.group("mo")), None, _tz(m)
    if t == "gMonthDay":
        mo, d = int(m.group("mo")), int(m.group("d"))
        return INVALID if d > days_in_month(None, mo) else (None, mo, d, _tz(m))
    if t == "gDay":
        return None, None, int(m.group("d")), _tz(m)
    raise KeyError(t)


PERIOD_SHAPES = ("gYear", "gYearMonth", "gMonth", "gMonthDay", "gDay")


def recognise_period(s):
    for t in PERIOD_SHAPES:
        v = recognise(t, s)
        if v is not INVALID:
            return t, v
    return None, INVALID


# ---------------------------------------------------------------------------
# libxml2 as a second opinion on lexical validity (XSD 1.0; see DESIGN §1.2 for the excluded sub-domains)

_LIBXML_TYPES = ["integer", "decimal", "double", "float", "boolean", "hexBinary", "base64Binary", "date", "time",
                 "dateTime", "duration", "gYear", "gYearMonth", "gMonth", "gMonthDay", "gDay", "QName", "long",
                 "int", "short", "byte", "unsignedLong", "unsignedInt", "unsignedShort", "unsignedByte",
                 "nonNegativeInteger", "positiveInteger", "nonPositiveInteger", "negativeInteger"]
_schema = None


def libxml_valid(t, s, nsmap=None):
    """True/False: does libxml2's XSD 1.0 validator accept `s` as an xs:<t>?"""
    global _schema
    from lxml import etree
    if _schema is None:
        body = "".join(f'<xs:element name="{x}" type="xs:{x}"/>' for x in _LIBXML_TYPES)
        _schema = etree.XMLSchema(etree.fromstring(
            f'<xs:schema xmlns:xs="http://www.w3.org/2001/XMLSchema">{body}</xs:schema>'))
    el = etree.Element(t, nsmap=nsmap)
    el.text = s
    return _schema.validate(el)


def civil_from_days(z):
    """Inverse of days_from_civil."""
    z += 719468
    era = z // 146097
    doe = z - era * 146097
    yoe = (doe - doe // 1460 + doe // 36524 - doe // 146096) // 365
    y = yoe + era * 400
    doy = doe - (365 * yoe + yoe // 4 - yoe // 100)
    mp = (5 * doy + 2) // 153
    d = doy - (153 * mp + 2) // 5 + 1
    m = mp + (3 if mp < 10 else -9)
    return (y + (m <= 2), m, d)


def datetime_from_timeline(ns_total, off):
    """Integer UTC nanoseconds + offset (minutes or None) -> dateTime value tuple (local fields)."""
    local = ns_total + (off or 0) * 60 * 10**9
    secs, ns = divmod(local, 10**9)
    days, rem = divmod(secs, 86400)
    y, m, d = civil_from_days(days)
    h, rem = divmod(rem, 3600)
    mi, s = divmod(rem, 60)
    return (y, m, d, h, mi, s, ns, off)
