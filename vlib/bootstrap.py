"""Process bootstrap shared by run.py and every worker.

* pins PYTHONHASHSEED=0 by re-executing once (C12 varies it on purpose in children),
* makes `hypothesis` importable (from /venv, else from /verif/.deps, installing it there
  offline from the wheelhouse if needed),
* puts the third-party stand-ins (vlib/shims) on sys.path *behind* everything else, so a
  real click/jinja2/toposort/requests wins if it is installed,
* asserts that `xsdata` is imported from /repo's working tree.

Exit code 2 = harness error (never a violation).
"""
import importlib.util
import os
import subprocess
import sys
from pathlib import Path

VERIF = Path(__file__).resolve().parent.parent
DEPS = VERIF / ".deps"
SHIMS = VERIF / "vlib" / "shims"
WHEELS = "/opt/veriftools/wheels"
REPO = Path(os.environ.get("XSDATA_VERIF_REPO", "/repo")).resolve()


def harness_error(msg):
    sys.stdout.flush()
    print(f"HARNESS-ERROR: {msg}", file=sys.stderr, flush=True)
    raise SystemExit(2)


def ensure_deps(install=True):
    if importlib.util.find_spec("hypothesis") is not None:
        return
    if str(DEPS) not in sys.path:
        sys.path.insert(0, str(DEPS))
        importlib.invalidate_caches()
    if importlib.util.find_spec("hypothesis") is not None:
        return
    if not install:
        harness_error("hypothesis is not importable")
    DEPS.mkdir(exist_ok=True)
    cmd = [sys.executable, "-m", "pip", "install", "--quiet", "--no-index",
           "--find-links", WHEELS, "--target", str(DEPS), "hypothesis"]
    r = subprocess.run(cmd, capture_output=True, text=True)
    importlib.invalidate_caches()
    if importlib.util.find_spec("hypothesis") is None:
        harness_error("cannot install hypothesis offline: " + r.stderr[-400:])


def ensure_shims():
    """Stand-ins for missing third-party packages of the code generator (DESIGN §1.1)."""
    used = []
    for name in ("click", "jinja2", "toposort", "requests"):
        if importlib.util.find_spec(name) is None:
            used.append(name)
    if used and str(SHIMS) not in sys.path:
        sys.path.append(str(SHIMS))
        importlib.invalidate_caches()
    import shutil
    if shutil.which("ruff") is None:
        os.environ["PATH"] = os.environ.get("PATH", "") + os.pathsep + str(SHIMS / "bin")
        used.append("ruff")
    return used


def bootstrap(reexec=True):
    os.environ.setdefault("PYTHONDONTWRITEBYTECODE", "1")
    sys.dont_write_bytecode = True
    if reexec and os.environ.get("PYTHONHASHSEED") != "0":
        env = dict(os.environ, PYTHONHASHSEED="0", PYTHONDONTWRITEBYTECODE="1")
        os.execve(sys.executable, [sys.executable] + sys.argv, env)
    # the repository under test: its working tree must be what gets imported
    if str(REPO) not in sys.path:
        sys.path.insert(0, str(REPO))
    if str(VERIF) not in sys.path:
        sys.path.insert(0, str(VERIF))
    ensure_deps()
    import xsdata
    here = Path(xsdata.__file__).resolve()
    if REPO not in here.parents:
        harness_error(f"xsdata imported from {here}, expected under {REPO}")
    import logging
    logging.getLogger("xsdata").setLevel(logging.CRITICAL)      # parser chatter ("Unassigned parsed object")
    return ensure_shims()
