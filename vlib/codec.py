"""Plain-data (JSON) encoding of Python values used in cases, samples and replay files.

`enc(value)` -> JSON-able; `dec(data, resolve=None)` -> Python value.
Model instances and enum members are encoded by reference to a class id; `resolve(kind, id)`
supplies the class when decoding (see vlib/models.py).
"""
import dataclasses
import datetime
import math
from decimal import Decimal
from enum import Enum
from xml.etree.ElementTree import QName

from xsdata.models.datatype import (XmlBase64Binary, XmlDate, XmlDateTime, XmlDuration, XmlHexBinary, XmlPeriod,
                                    XmlTime)


def enc(v):
    if v is None or isinstance(v, (bool, str)):
        return v
    if isinstance(v, int):
        return v
    if isinstance(v, float):
        return {"f": v.hex()}
    if isinstance(v, Decimal):
        return {"dec": str(v)}
    if isinstance(v, XmlHexBinary):
        return {"xb16": bytes(v).hex()}
    if isinstance(v, XmlBase64Binary):
        return {"xb64": bytes(v).hex()}
    if isinstance(v, bytes):
        return {"b": v.hex()}
    if isinstance(v, QName):
        return {"qn": v.text}
    if isinstance(v, XmlDateTime):
        return {"xdt": list(v)}
    if isinstance(v, XmlDate):
        return {"xd": list(v)}
    if isinstance(v, XmlTime):
        return {"xt": list(v)}
    if isinstance(v, XmlDuration):
        return {"dur": v.data}
    if isinstance(v, XmlPeriod):
        return {"per": v.data}
    if isinstance(v, datetime.datetime):
        return {"dt": v.isoformat()}
    if isinstance(v, datetime.date):
        return {"d": v.isoformat()}
    if isinstance(v, datetime.time):
        return {"t": v.isoformat()}
    if isinstance(v, Enum):
        return {"enum": [getattr(type(v), "__vid__", type(v).__qualname__), v.name]}
    if isinstance(v, list):
        return [enc(x) for x in v]
    if isinstance(v, tuple):
        return {"tup": [enc(x) for x in v]}
    if isinstance(v, dict):
        return {"map": [[enc(k), enc(x)] for k, x in v.items()]}
    if dataclasses.is_dataclass(v) and not isinstance(v, type):
        cid = getattr(type(v), "__vid__", None)
        kw = {f.name: enc(getattr(v, f.name)) for f in dataclasses.fields(v)}
        return {"obj": cid if cid is not None else type(v).__qualname__, "kw": kw}
    return {"repr": repr(v)}


def dec(d, resolve=None):
    if d is None or isinstance(d, (bool, str, int)):
        return d
    if isinstance(d, float):
        return d
    if isinstance(d, list):
        return [dec(x, resolve) for x in d]
    (k, v), = d.items() if len(d) == 1 else (("obj", d),)
    if k == "f":
        return float.fromhex(v) if v not in ("nan", "-nan") else math.nan
    if k == "dec":
        return Decimal(v)
    if k == "b":
        return bytes.fromhex(v)
    if k == "xb16":
        return XmlHexBinary(bytes.fromhex(v))
    if k == "xb64":
        return XmlBase64Binary(bytes.fromhex(v))
    if k == "qn":
        return QName(v)
    if k == "xdt":
        return XmlDateTime(*v)
    if k == "xd":
        return XmlDate(*v)
    if k == "xt":
        return XmlTime(*v)
    if k == "dur":
        return XmlDuration(v)
    if k == "per":
        return XmlPeriod(v)
    if k == "dt":
        return datetime.datetime.fromisoformat(v)
    if k == "d":
        return datetime.date.fromisoformat(v)
    if k == "t":
        return datetime.time.fromisoformat(v)
    if k == "tup":
        return tuple(dec(x, resolve) for x in v)
    if k == "map":
        return {dec(a, resolve): dec(b, resolve) for a, b in v}
    if k == "enum":
        return resolve("enum", v[0])[v[1]]
    if k == "obj":
        cls = resolve("class", d["obj"])
        return resolve("build", (cls, {n: dec(x, resolve) for n, x in d["kw"].items()}))
    raise ValueError(f"cannot decode {d!r}")


def deep_eq(a, b, own_eq=False):
    """Structural equality (DESIGN §3.4): same concrete types, NaN == NaN, works for eq=False models.

    own_eq=True compares leaf values of one type with their own `==` (so 0.0 == -0.0 and a time with offset 0 equals the same
    time without offset): for properties that promise an *equal* object rather than one that writes the same document."""
    if type(a) is not type(b):
        return False
    if dataclasses.is_dataclass(a):
        return all(deep_eq(getattr(a, f.name), getattr(b, f.name), own_eq) for f in dataclasses.fields(a))
    if isinstance(a, (list, tuple)) and not hasattr(a, "_fields"):
        return len(a) == len(b) and all(deep_eq(x, y, own_eq) for x, y in zip(a, b))
    if isinstance(a, dict):
        return a.keys() == b.keys() and all(deep_eq(a[k], b[k], own_eq) for k in a)
    if isinstance(a, float):
        return (a == b and (own_eq or math.copysign(1, a) == math.copysign(1, b))) or (math.isnan(a) and math.isnan(b))
    if isinstance(a, Decimal):
        return (a.is_nan() and b.is_nan()) or a == b
    if isinstance(a, QName):
        return a.text == b.text
    if isinstance(a, (XmlDate, XmlTime, XmlDateTime)):
        if own_eq:
            return a == b
        return tuple(a) == tuple(b)           # field by field, not through the overloaded operators
    if isinstance(a, XmlDuration):
        return a.data == b.data
    if isinstance(a, XmlPeriod):
        return a.data == b.data
    return a == b


def first_diff(a, b, path="$"):
    """Human-readable location of the first difference found by deep_eq."""
    if type(a) is not type(b):
        return f"{path}: type {type(a).__name__} != {type(b).__name__} ({a!r} vs {b!r})"[:300]
    if dataclasses.is_dataclass(a):
        for f in dataclasses.fields(a):
            x, y = getattr(a, f.name), getattr(b, f.name)
            if not deep_eq(x, y):
                return first_diff(x, y, f"{path}.{f.name}")
    if isinstance(a, (list, tuple)) and not hasattr(a, "_fields"):
        if len(a) != len(b):
            return f"{path}: length {len(a)} != {len(b)}"
        for i, (x, y) in enumerate(zip(a, b)):
            if not deep_eq(x, y):
                return first_diff(x, y, f"{path}[{i}]")
    if isinstance(a, dict):
        if a.keys() != b.keys():
            return f"{path}: keys {sorted(map(str, a))} != {sorted(map(str, b))}"
        for k in a:
            if not deep_eq(a[k], b[k]):
                return first_diff(a[k], b[k], f"{path}[{k!r}]")
    return f"{path}: {a!r} != {b!r}"[:300]
