"""Meaning-preserving rewrites of an XML document (DESIGN §C09).

A small harness-side XML writer that controls every lexical choice.  It takes the real document (lxml tree), the
expected tree of vlib/expect.py (which says which values are QNames, which are non-string and which content is
element-only) and a "choice tape" of small integers drawn by Hypothesis, and writes a document with the same
infoset but other prefixes / default-namespace usage, attribute order, whitespace between children of
element-only content, comments and processing instructions, CDATA sections and character references, another
encoding, blanks around non-string values, or a subtree moved to an XInclude'd file.
"""
import re
from pathlib import Path

from vlib import expect as E

XI = "http://www.w3.org/2001/XInclude"
KINDS = ["prefixes", "default-ns", "attr-order", "whitespace", "comments", "pis", "cdata", "charrefs", "encoding", "shadow",
         "pad-values", "xinclude", "late-declarations"]


class Node:
    __slots__ = ("ns", "local", "attrs", "items", "element_only", "any")

    def __init__(self, ns, local):
        self.ns, self.local = ns, local
        self.attrs = []        # (ns, local, Value)
        self.items = []        # Node | Value
        self.element_only = False
        self.any = False


class Value:
    """Character data: literal text, or QName tokens resolved to (uri, local), plus whether blanks may be added."""
    __slots__ = ("text", "qnames", "padable")

    def __init__(self, text, qnames=None, padable=False):
        self.text, self.qnames, self.padable = text, qnames, padable


def split_qname(tag):
    if tag.startswith("{"):
        u, l = tag[1:].split("}", 1)
        return u, l
    return None, tag


def _atom_kind(spec, v):
    if isinstance(v, dict) and "enum" in v:
        return _atom_kind(spec, E.enum_value(spec, v))
    if isinstance(v, str):
        return "str"
    if isinstance(v, dict) and "qn" in v:
        return "qname"
    if isinstance(v, dict) and ("dt" in v or "d" in v):
        return "str"        # strftime formats are not XSD lexical spaces: no whitespace collapse is promised
    return "other"


def value_of(spec, leaf, text, nsmap):
    if leaf is None or "raw" in leaf:
        return Value(text)
    atoms = leaf["v"] if leaf["tokens"] else [leaf["v"]]
    kinds = {_atom_kind(spec, a) for a in atoms}
    if kinds == {"qname"}:
        toks = text.split()
        return Value(text, [E.resolve_qname(t, nsmap) for t in toks], padable=True)
    if "str" in kinds:
        return Value(text)
    return Value(text, padable=True)


def annotate(spec, exp, el):
    """Parallel walk of the expected node and the real element (they match: C03 checks that)."""
    ns, local = split_qname(el.tag)
    n = Node(ns, local)
    n.any = exp["any"]
    nsmap = el.nsmap
    for k, v in el.attrib.items():
        ans, alocal = split_qname(k)
        if k == E.XSI_TYPE:
            n.attrs.append((ans, alocal, Value(v, [E.resolve_qname(v, nsmap)], padable=True)))
        elif k == E.XSI_NIL:
            n.attrs.append((ans, alocal, Value(v, padable=True)))
        else:
            n.attrs.append((ans, alocal, value_of(spec, exp["attrs"].get(k), v, nsmap)))
    exp_children = list(exp["children"])
    exp_els = [c for c in exp_children if "q" in c]
    exp_leaves = [c for c in exp_children if "q" not in c]
    n.element_only = bool(exp_els) and not exp_leaves and not exp["any"]
    real_els = [c for c in el if isinstance(c.tag, str)]
    if len(real_els) != len(exp_els):
        raise ValueError("document and expected tree disagree (C03 territory)")
    # character data is one run across comments and processing instructions
    runs, cur = [], el.text or ""
    for c in el:
        if isinstance(c.tag, str):
            runs.append(cur)
            runs.append(c)
            cur = c.tail or ""
        else:
            cur += c.tail or ""
    runs.append(cur)
    it = iter(exp_els)
    first = True
    for r in runs:
        if isinstance(r, str):
            if r:
                n.items.append(value_of(spec, exp_leaves[0] if exp_leaves and not exp_els and first else None, r, nsmap))
            first = False
        else:
            n.items.append(annotate(spec, next(it), r))
    if n.element_only:
        n.items = [i for i in n.items if isinstance(i, Node) or i.text.strip()]
    return n


class Tape:
    def __init__(self, ints):
        self.ints = list(ints) or [0]
        self.i = 0

    def pick(self, n):
        v = self.ints[self.i % len(self.ints)]
        self.i += 1
        return v % n if n else 0

    def flag(self):
        return self.pick(2) == 1


NAME_OK = re.compile(r"[^\W\d][\w.\-]*")


class Rewriter:
    def __init__(self, tape, kinds, scratch=None):
        self.t = Tape(tape)
        self.kinds = set(kinds)
        self.applied = set()
        self.scratch = scratch
        self.files = []

    # -- namespaces ------------------------------------------------------------
    def collect(self, n, uris, plain_qname, unqualified):
        if n.ns:
            uris.add(n.ns)
        else:
            unqualified.append(1)
        for ans, _, v in n.attrs:
            if ans:
                uris.add(ans)
            for u, _l in (v.qnames or ()):
                (uris.add(u) if u else plain_qname.append(1))
        for i in n.items:
            if isinstance(i, Node):
                self.collect(i, uris, plain_qname, unqualified)
            else:
                for u, _l in (i.qnames or ()):
                    (uris.add(u) if u else plain_qname.append(1))

    def assign(self, root, original_prefixes):
        uris, plain, unq = set(), [], []
        self.collect(root, uris, plain, unq)
        uris.discard("http://www.w3.org/XML/1998/namespace")
        uris = sorted(uris)
        self.prefix = {}
        names = ["r", "n", "ns0", "xsi", "p", "q_", "a.b", "é"]
        for k, u in enumerate(uris):
            if "prefixes" in self.kinds:
                self.prefix[u] = f"{names[self.t.pick(len(names))]}{k}"
                self.applied.add("prefixes")
            else:
                p = original_prefixes.get(u)
                self.prefix[u] = p if p and p not in self.prefix.values() else f"o{k}"
        self.default = None
        if "default-ns" in self.kinds and uris and not plain and not unq:
            self.default = uris[self.t.pick(len(uris))]
            self.applied.add("default-ns")

    def name(self, ns, local, attribute=False):
        if not ns:
            return local
        if ns == "http://www.w3.org/XML/1998/namespace":
            return "xml:" + local
        if ns == self.default and not attribute:
            return local
        return f"{self.prefix[ns]}:{local}"

    def qname_text(self, uri, local):
        if not uri:
            return local
        if uri == self.default and self.t.flag():
            return local
        return f"{self.prefix[uri]}:{local}"

    # -- character data ----------------------------------------------------------
    def esc_char(self, ch, in_attr):
        if ch == "&":
            return "&amp;"
        if ch == "<":
            return "&lt;"
        if ch == ">":
            return "&gt;"
        if ch == "\r":
            return "&#13;" if self.t.flag() else "&#xD;"
        if in_attr and ch in "\t\n":
            return "&#%d;" % ord(ch)
        if in_attr and ch == '"':
            return "&quot;"
        return ch

    def chars(self, text, in_attr=False):
        out = []
        for ch in text:
            if "charrefs" in self.kinds and ch not in "&<" and self.t.pick(4) == 0:
                out.append(("&#%d;" if self.t.flag() else "&#x%X;") % ord(ch))
                self.applied.add("charrefs")
            elif self.encoding_limit and ord(ch) > self.encoding_limit:
                out.append("&#%d;" % ord(ch))
            else:
                out.append(self.esc_char(ch, in_attr))
        return "".join(out)

    def value_text(self, v):
        text = v.text
        if v.qnames is not None:
            lead = text[:len(text) - len(text.lstrip())]
            text = " ".join(self.qname_text(u, l) for u, l in v.qnames)
        if v.padable and "pad-values" in self.kinds and self.t.flag():
            pad = [" ", "\n", "\t ", "  "][self.t.pick(4)]
            text = pad + text + [" ", "\n", ""][self.t.pick(3)]
            self.applied.add("pad-values")
        return text

    def text_node(self, v, allow_split=True):
        text = self.value_text(v)
        if not text:
            return ""
        parts = [text]
        if allow_split and len(text) >= 2 and ("comments" in self.kinds or "pis" in self.kinds) and self.t.pick(3) == 0:
            k = 1 + self.t.pick(len(text) - 1)
            parts = [text[:k], None, text[k:]]
        out = []
        for p in parts:
            if p is None:
                out.append(self.noise())
            elif "cdata" in self.kinds and "]]>" not in p and "\r" not in p and self.t.pick(3) == 0 and not (
                    self.encoding_limit and any(ord(c) > self.encoding_limit for c in p)):
                out.append("<![CDATA[" + p + "]]>")
                self.applied.add("cdata")
            else:
                out.append(self.chars(p))
        return "".join(out)

    def noise(self):
        if "comments" in self.kinds and ("pis" not in self.kinds or self.t.flag()):
            self.applied.add("comments")
            return "<!-- %s -->" % ["c", "a <b> & c", "x - y"][self.t.pick(3)]
        if "pis" in self.kinds:
            self.applied.add("pis")
            return "<?%s?>" % ["pi", "target data='1'", "x-y z"][self.t.pick(3)]
        return ""

    # -- elements ------------------------------------------------------------------
    def declarations(self, n, in_scope, root):
        """xmlns attributes for this element; returns (text, new in_scope dict prefix->uri)."""
        need = set()
        if n.ns and not (n.ns == self.default):
            need.add(n.ns)
        for ans, _l, v in n.attrs:
            if ans and ans != "http://www.w3.org/XML/1998/namespace":
                need.add(ans)
            for u, _x in (v.qnames or ()):
                if u:
                    need.add(u)
        for i in n.items:
            if not isinstance(i, Node):
                for u, _x in (i.qnames or ()):
                    if u:
                        need.add(u)
        need.discard("http://www.w3.org/XML/1998/namespace")
        decls = []
        scope = dict(in_scope)
        late = "late-declarations" in self.kinds
        if root:
            if self.default:
                decls.append(("", self.default))
                scope[""] = self.default
            if not late:
                need |= set(self.prefix)
        for u in sorted(need):
            p = self.prefix[u]
            if scope.get(p) != u:
                decls.append((p, u))
                scope[p] = u
            elif late and self.t.pick(4) == 0:
                decls.append((p, u))       # harmless re-declaration
        if late and not root and need:
            self.applied.add("late-declarations")
        if self.default and scope.get("") != self.default:
            decls.append(("", self.default))
            scope[""] = self.default
        if ("shadow" in self.kinds or "shadow!" in self.kinds) and not root and not n.any:
            # re-bind, for this element only, a prefix of the surrounding scope that nothing below needs (a decoy URI): the
            # binding of the ancestor is back in force for everything that follows the element
            used = self.subtree_uris(n)
            mine = {p for p, _ in decls}
            cands = sorted(p for p, u in scope.items() if p and p not in mine and u not in used and not u.startswith("urn:decoy"))
            if cands and ("shadow!" in self.kinds or self.t.pick(3) == 0):
                p = cands[self.t.pick(len(cands))]
                decls.append((p, "urn:decoy:shadow"))
                scope[p] = "urn:decoy:shadow"
                self.applied.add("shadow")
        return decls, scope

    def subtree_uris(self, n):
        out = {n.ns} if n.ns else set()
        for ans, _l, v in n.attrs:
            if ans:
                out.add(ans)
            out |= {u for u, _x in (v.qnames or ()) if u}
        for i in n.items:
            if isinstance(i, Node):
                if i.any:
                    return out | set(self.prefix)       # generic content: assume it may need anything
                out |= self.subtree_uris(i)
            else:
                out |= {u for u, _x in (i.qnames or ()) if u}
        return out

    def element(self, n, in_scope, depth, root=False):
        decls, scope = self.declarations(n, in_scope, root)
        attrs = [(f'xmlns:{p}' if p else "xmlns", u) for p, u in decls]
        real = [(self.name(ans, al, True), self.value_text(v)) for ans, al, v in n.attrs]
        if "attr-order" in self.kinds and len(real) + len(attrs) > 1:
            allattrs = attrs + real
            k = self.t.pick(len(allattrs))
            allattrs = allattrs[k:] + allattrs[:k]
            if self.t.flag():
                allattrs.reverse()
            self.applied.add("attr-order")
        else:
            allattrs = attrs + real
        tag = self.name(n.ns, n.local)
        out = ["<", tag]
        for k, v in allattrs:
            sep = [" ", "\n  ", "  "][self.t.pick(3)] if "whitespace" in self.kinds else " "
            out.append(f'{sep}{k}="{self.chars(v, in_attr=True)}"')
        if not n.items and self.t.flag():
            out.append("/>")
            return "".join(out)
        out.append(">")
        ws_ok = n.element_only and "whitespace" in self.kinds
        noise_ok = not n.any or True
        for i in n.items:
            if ws_ok:
                out.append(["", "\n" + "  " * depth, " ", "\t\n"][self.t.pick(4)])
                self.applied.add("whitespace")
            if isinstance(i, Node):
                if (n.element_only or n.any) and noise_ok and self.t.pick(5) == 0:
                    out.append(self.noise())
                if "xinclude" in self.kinds and self.scratch and not self.files and depth >= 1 and self.t.pick(3) == 0:
                    out.append(self.include(i, scope))
                else:
                    out.append(self.element(i, scope, depth + 1))
            else:
                out.append(self.text_node(i, allow_split=True))
        if ws_ok:
            out.append(["", "\n", " "][self.t.pick(3)])
        out.append(f"</{tag}>")
        return "".join(out)

    def include(self, n, scope):
        """Move the subtree into its own file and leave an xi:include behind."""
        sub = Rewriter(self.t.ints[self.t.i % len(self.t.ints):] + self.t.ints, self.kinds - {"xinclude", "encoding"}, None)
        sub.prefix, sub.default, sub.encoding_limit = self.prefix, None, None
        body = sub.element(n, {}, 1, root=True)
        self.applied |= sub.applied
        name = f"part{len(self.files)}.xml"
        path = Path(self.scratch) / name
        path.write_text('<?xml version="1.0" encoding="UTF-8"?>\n' + body, encoding="utf-8")
        self.files.append(path)
        self.applied.add("xinclude")
        return f'<xi:include xmlns:xi="{XI}" href="{name}"/>'

    def document(self, root, original_prefixes):
        self.assign(root, original_prefixes)
        enc, bom, limit = "utf-8", b"", None
        if "encoding" in self.kinds:
            enc, bom, limit = [("utf-8", b"\xef\xbb\xbf", None), ("utf-16-le", b"\xff\xfe", None), ("utf-16-be", b"\xfe\xff", None),
                               ("iso-8859-1", b"", 255), ("us-ascii", b"", 127), ("utf-8", b"", None)][self.t.pick(6)]
            self.applied.add("encoding")
        self.encoding_limit = limit
        body = self.element(root, {}, 1, root=True)
        declared = {"utf-16-le": "UTF-16", "utf-16-be": "UTF-16"}.get(enc, enc.upper())
        head = f'<?xml version="1.0" encoding="{declared}"?>' + (["\n", "", "\n<!-- prolog -->\n"][self.t.pick(3)] if "comments" in self.kinds else "\n")
        text = head + body + (["", "\n", "<!-- end -->"][self.t.pick(3)] if "comments" in self.kinds else "")
        try:
            data = bom + text.encode(enc)
        except UnicodeEncodeError:
            # a name outside the target charset: fall back to UTF-8
            self.applied.discard("encoding")
            self.encoding_limit = None
            data = ('<?xml version="1.0" encoding="UTF-8"?>\n' + body).encode("utf-8")
        return data


def same_value(a, b):
    if a.qnames is not None or b.qnames is not None:
        return a.qnames == b.qnames
    if a.padable:
        return a.text.strip(" \t\r\n") == b.text.strip(" \t\r\n")
    return a.text == b.text


def same(a, b, path=""):
    """None if two annotated trees carry the same information, else where they differ (rewriter self-check)."""
    here = f"{path}/{a.local}"
    if (a.ns, a.local) != (b.ns, b.local):
        return f"{here}: name {(a.ns, a.local)} != {(b.ns, b.local)}"
    aa = {(ns, l): v for ns, l, v in a.attrs}
    bb = {(ns, l): v for ns, l, v in b.attrs}
    if set(aa) != set(bb):
        return f"{here}: attributes {sorted(aa)} != {sorted(bb)}"
    for k in aa:
        if not same_value(aa[k], bb[k]):
            return f"{here}/@{k}: {aa[k].text!r} != {bb[k].text!r}"

    def merged(items):
        out = []
        for i in items:
            if not isinstance(i, Node) and out and not isinstance(out[-1], Node):
                out[-1] = Value(out[-1].text + i.text, out[-1].qnames, out[-1].padable)
            else:
                out.append(i)
        return out
    ia, ib = merged(a.items), merged(b.items)
    if len(ia) != len(ib):
        return f"{here}: {len(ia)} content items != {len(ib)}"
    for x, y in zip(ia, ib):
        if isinstance(x, Node) != isinstance(y, Node):
            return f"{here}: element vs text"
        r = same(x, y, here) if isinstance(x, Node) else (None if same_value(x, y) else f"{here}: text {x.text!r} != {y.text!r}")
        if r:
            return r
    return None
