"""Small sets of XML Schemas that import each other (C02 / C07 `multi` families).

    spec = {"leaves": [{"ns": uri, "types": {type name: [[field, TYPE, occ], ...]}, "elements": [names of global elements]}],
            "main_ns": uri, "uses": [[leaf index, type name], ...]}
    TYPE = "xs:<builtin>" | [leaf index, type name]        (a leaf only refers to leaves after it: no import cycles)
    occ  = "" | "?" | "*"

Type names come from a small pool, so the same name recurs across namespaces; a leaf may also declare a global element
with the name of one of its types.  Every schema has elementFormDefault="qualified".
"""
from hypothesis import strategies as st

XS = "http://www.w3.org/2001/XMLSchema"
NS_POOL = ["http://example.com/alpha/one", "http://example.com/alpha/two", "http://example.com/beta/two", "urn:shop:orders",
           "urn:shop:common:types", "urn:x"]
TYPE_NAMES = ["Item", "item", "Item1", "Address", "Code", "itemClass", "Party"]
FIELDS = ["name", "value", "code", "note", "row", "unit", "size", "part", "label"]
VALUES = {"string": ["abc", "x y"], "int": ["0", "-12"], "decimal": ["1.5"], "date": ["2001-10-26"], "boolean": ["true", "false"]}


@st.composite
def multi_specs(draw, type_names=TYPE_NAMES, field_names=FIELDS):
    uris = draw(st.lists(st.sampled_from(NS_POOL), min_size=2, max_size=4, unique=True))
    leaves = [{"ns": ns, "types": {}, "elements": []} for ns in uris]
    for i in reversed(range(len(leaves))):
        for tn in draw(st.lists(st.sampled_from(type_names), min_size=1, max_size=3, unique=True)):
            fields = []
            for f in draw(st.lists(st.sampled_from(field_names), min_size=1, max_size=3, unique=True)):
                later = [[j, t] for j in range(i + 1, len(leaves)) for t in leaves[j]["types"]]
                tp = draw(st.sampled_from(later)) if later and draw(st.integers(0, 2)) == 0 else "xs:" + draw(st.sampled_from(sorted(VALUES)))
                fields.append([f, tp, draw(st.sampled_from(["", "", "?", "*"]))])
            leaves[i]["types"][tn] = fields
        for tn in leaves[i]["types"]:
            if draw(st.integers(0, 3)) == 0:
                leaves[i]["elements"].append(tn)            # <xs:element name="Item" type="tns:Item"/> next to the type
    all_types = [[i, t] for i, leaf in enumerate(leaves) for t in leaf["types"]]
    uses = draw(st.lists(st.sampled_from(all_types), min_size=2, max_size=min(5, len(all_types)), unique_by=lambda x: tuple(x))) if len(all_types) >= 2 else all_types
    return {"leaves": leaves, "main_ns": draw(st.sampled_from(["http://example.com/main", "urn:main"])), "uses": uses}


def _occ(o):
    return {"": "", "?": ' minOccurs="0"', "*": ' minOccurs="0" maxOccurs="unbounded"'}[o]


def render(spec):
    files = {}
    for i, leaf in enumerate(spec["leaves"]):
        used = sorted({tp[0] for fields in leaf["types"].values() for _, tp, _ in fields if not isinstance(tp, str)})
        decl = "".join(f' xmlns:n{j}="{spec["leaves"][j]["ns"]}"' for j in used)
        imports = "".join(f'<xs:import namespace="{spec["leaves"][j]["ns"]}" schemaLocation="leaf{j}.xsd"/>' for j in used)
        body = []
        for tn, fields in leaf["types"].items():
            els = "".join(f'<xs:element name="{f}" type="{tp if isinstance(tp, str) else f"n{tp[0]}:{tp[1]}"}"{_occ(o)}/>' for f, tp, o in fields)
            body.append(f'<xs:complexType name="{tn}"><xs:sequence>{els}</xs:sequence></xs:complexType>')
        for en in leaf["elements"]:
            body.append(f'<xs:element name="{en}" type="tns:{en}"/>')
        files[f"leaf{i}.xsd"] = (f'<?xml version="1.0" encoding="UTF-8"?>\n<xs:schema xmlns:xs="{XS}" xmlns:tns="{leaf["ns"]}"{decl} targetNamespace="{leaf["ns"]}" '
                                 f'elementFormDefault="qualified">{imports}{"".join(body)}</xs:schema>\n')
    idx = sorted({i for i, _ in spec["uses"]})
    decl = "".join(f' xmlns:n{i}="{spec["leaves"][i]["ns"]}"' for i in idx)
    imports = "".join(f'<xs:import namespace="{spec["leaves"][i]["ns"]}" schemaLocation="leaf{i}.xsd"/>' for i in idx)
    els = "".join(f'<xs:element name="e{k}" type="n{i}:{tn}"/>' for k, (i, tn) in enumerate(spec["uses"]))
    files["main.xsd"] = (f'<?xml version="1.0" encoding="UTF-8"?>\n<xs:schema xmlns:xs="{XS}"{decl} targetNamespace="{spec["main_ns"]}" '
                         f'elementFormDefault="qualified">{imports}<xs:element name="Basket"><xs:complexType><xs:sequence>{els}</xs:sequence>'
                         f'</xs:complexType></xs:element></xs:schema>\n')
    return files


def instance(draw, spec):
    """A valid Basket document with canonical value spellings."""
    def content(i, tn, depth):
        out = []
        ns = spec["leaves"][i]["ns"]
        for f, tp, o in spec["leaves"][i]["types"][tn]:
            n = {"": 1, "?": draw(st.integers(0, 1)), "*": draw(st.integers(0, 2))}[o] if depth < 4 else (1 if o == "" else 0)
            for _ in range(n):
                inner = draw(st.sampled_from(VALUES[tp[3:]])) if isinstance(tp, str) else content(tp[0], tp[1], depth + 1)
                out.append(f'<f:{f} xmlns:f="{ns}">{inner}</f:{f}>')
        return "".join(out)
    kids = "".join(f"<m:e{k}>{content(i, tn, 0)}</m:e{k}>" for k, (i, tn) in enumerate(spec["uses"]))
    return f'<m:Basket xmlns:m="{spec["main_ns"]}">{kids}</m:Basket>'
