"""Driver for xsdata's code generator in this sandbox (DESIGN §1.1).

The generator's third-party dependencies (click, jinja2, toposort, requests, ruff) are absent; vlib/shims
supplies stand-ins for *those packages only* (bootstrap puts them on sys.path behind everything else).
This module runs the real ResourceTransformer/DataclassGenerator and imports what they wrote.

    with Workspace() as ws:
        pkg = ws.generate({"s.xsd": xsd_text}, options)      # -> package name, files under ws.dir
        mod = ws.import_module(pkg + ".s")

fidelity_selftest() re-generates the fixture packages committed under /repo/tests/fixtures with the options of
tests/integration/test_*.py and compares every file AST-for-AST with what upstream generated with the real
toolchain (imports ignored, string constants compared modulo whitespace runs since ruff re-wraps docstrings).
"""
import ast
import importlib
import itertools
import os
import shutil
import sys
import tempfile
import warnings
from pathlib import Path

from vlib.bootstrap import REPO

_counter = itertools.count()


def config_from(options):
    """GeneratorConfig from a flat dict {"package":..., "structure_style": "filenames", "compound_fields.enabled": True, ...}."""
    from xsdata.models import config as C
    cfg = C.GeneratorConfig()
    out = cfg.output
    enums = {"structure_style": C.StructureStyle, "docstring_style": C.DocstringStyle}
    for k, v in options.items():
        if k == "package":
            out.package = v
        elif k in enums:
            setattr(out, k, enums[k](v) if not isinstance(v, enums[k]) else v)
        elif k.startswith("compound_fields."):
            setattr(out.compound_fields, k.split(".", 1)[1], v)
        elif k.startswith("format."):
            if k == "format.kw_only":
                continue        # not configurable in this version (always on); older replay cases still carry the key
            if not hasattr(out.format, k.split(".", 1)[1]):
                raise KeyError(k)
            setattr(out.format, k.split(".", 1)[1], v)
        elif k.startswith("conventions."):
            # conventions.class_name.case = "pascalCase" | .safe_prefix = "x"
            _, name, attr = k.split(".")
            conv = getattr(cfg.conventions, name)
            setattr(conv, attr, C.NameCase(v) if attr == "case" and not isinstance(v, C.NameCase) else v)
        elif k == "substitutions":
            cfg.substitutions.substitution.extend(C.GeneratorSubstitution(type=C.ObjectType(t), search=s, replace=r) for t, s, r in v)
        elif hasattr(out, k):
            setattr(out, k, v)
        else:
            raise KeyError(k)
    # what constructing the configuration dataclasses with these values does
    with warnings.catch_warnings():
        warnings.simplefilter("ignore")
        out.format.validate()
        out.validate()
    return cfg


class Workspace:
    """A scratch directory that is cwd and on sys.path while code is generated and imported."""

    def __init__(self):
        self.dir = None
        self.generated = []

    def __enter__(self):
        self.dir = Path(tempfile.mkdtemp(prefix="vgen_"))
        self.prev = os.getcwd()
        os.chdir(self.dir)
        sys.path.insert(0, str(self.dir))
        return self

    def __exit__(self, *exc):
        os.chdir(self.prev)
        if str(self.dir) in sys.path:
            sys.path.remove(str(self.dir))
        for name in [m for m in sys.modules if any(m == g or m.startswith(g + ".") for g in self.generated)]:
            sys.modules.pop(name, None)
        importlib.invalidate_caches()
        shutil.rmtree(self.dir, ignore_errors=True)

    def write_sources(self, sources):
        uris = []
        for name, text in sources.items():
            p = self.dir / name
            p.parent.mkdir(parents=True, exist_ok=True)
            if isinstance(text, bytes):
                p.write_bytes(text)
            else:
                p.write_text(text, encoding="utf-8")
            uris.append(p.resolve().as_uri())
        return uris

    def unique_package(self, stem="g"):
        return f"{stem}{os.getpid()}_{next(_counter)}"

    def generate(self, sources, options=None, uris=None, package=None):
        """Run the real pipeline.  `sources` {relative path: text} are written into the workspace first."""
        from xsdata.codegen.transformer import ResourceTransformer
        options = dict(options or {})
        package = package or options.pop("package", None) or self.unique_package()
        options["package"] = package
        self.generated.append(package.split(".")[0])
        all_uris = (self.write_sources(sources) if sources else []) + list(uris or [])
        cfg = config_from(options)
        with warnings.catch_warnings():
            warnings.simplefilter("ignore")
            ResourceTransformer(config=cfg).process(sorted(all_uris))
        importlib.invalidate_caches()
        return package

    def files(self, package):
        root = self.dir / package.split(".")[0]
        return sorted(p for p in root.rglob("*.py"))

    def import_module(self, name):
        importlib.invalidate_caches()
        return importlib.import_module(name)

    def import_all(self, package):
        """Import every generated module of the package; -> {module name: module}."""
        out = {}
        top = package.split(".")[0]
        for f in self.files(package):
            rel = f.relative_to(self.dir).with_suffix("")
            parts = list(rel.parts)
            if parts[-1] == "__init__":
                parts = parts[:-1]
            name = ".".join(parts)
            out[name] = self.import_module(name)
        return out

    def classes(self, package):
        """All binding classes defined by the generated modules (inner classes included)."""
        import dataclasses
        seen, out = set(), []

        def walk(cls):
            if id(cls) in seen:
                return
            seen.add(id(cls))
            out.append(cls)
            for v in vars(cls).values():
                if isinstance(v, type) and dataclasses.is_dataclass(v):
                    walk(v)
        for name, mod in self.import_all(package).items():
            for v in vars(mod).values():
                if isinstance(v, type) and dataclasses.is_dataclass(v) and v.__module__ == mod.__name__:
                    walk(v)
        return out


# ---------------------------------------------------------------------------
# fidelity self-test of the stand-ins against the committed fixtures


class _Norm(ast.NodeTransformer):
    def visit_ImportFrom(self, node):
        return None

    def visit_Import(self, node):
        return None

    def visit_Constant(self, node):
        if isinstance(node.value, str):
            node.value = " ".join(node.value.split())
        return node


def norm_source(src):
    tree = _Norm().visit(ast.parse(src))
    for n in ast.walk(tree):
        if isinstance(n, (ast.ClassDef, ast.Module)) and not n.body:
            n.body.append(ast.Pass())
    return ast.dump(tree)


def _fixture_cases():
    fx = REPO / "tests" / "fixtures"
    u = lambda *p: [x.as_uri() for x in p]     # noqa: E731
    cases = [
        ("books", u(fx / "books/schema.xsd"), {"structure_style": "namespaces", "docstring_style": "Google"}, "books", fx / "books"),
        ("primer", u(fx / "primer/order.xsd"), {"docstring_style": "NumPy"}, "primer", fx / "primer"),
        ("compound", u(fx / "compound/schema.xsd"), {"structure_style": "single-package", "compound_fields.enabled": True, "_pkg": "compound.models"}, "compound", fx / "compound"),
        ("wrapper", u(fx / "wrapper/schema.xsd"), {"structure_style": "single-package", "wrapper_fields": True, "compound_fields.enabled": True, "_pkg": "wrapper.models"}, "wrapper", fx / "wrapper"),
        ("hello", u(fx / "hello/hello.wsdl"), {"_wsdl": True}, "hello", fx / "hello"),
        ("calculator", u(fx / "calculator/services.wsdl"), {"_wsdl": True}, "calculator", fx / "calculator"),
        ("dtd", u(fx / "dtd/complete_example.dtd"), {"_pkg": "dtd.models"}, "dtd/models", fx / "dtd/models"),
        ("artists", u(*sorted((fx / "artists").glob("*.xml"))), {}, "artists", fx / "artists"),
        ("series", u(*sorted((fx / "series/samples").glob("*.json"))), {}, "series", fx / "series"),
    ]
    for style, d in (("reStructuredText", "rst"), ("NumPy", "numpy"), ("Google", "google"), ("Accessible", "accessible"), ("Blank", "blank")):
        cases.append((f"doc-{d}", u(fx / "docstrings/schema.xsd"), {"docstring_style": style, "_pkg": f"docstrings.{d}"}, f"docstrings/{d}", fx / f"docstrings/{d}"))
    return cases


def fidelity_selftest(verbose=False):
    ok = True
    compared = 0
    for name, uris, opts, outdir, refdir in _fixture_cases():
        opts = dict(opts)
        pkg_tail = opts.pop("_pkg", name)
        opts.pop("_wsdl", None)
        with Workspace() as ws:
            top = ws.unique_package("fx")
            try:
                ws.generate(None, opts, uris=uris, package=f"{top}.{pkg_tail}")
            except Exception as e:
                print(f"selftest {name}: generation failed: {type(e).__name__}: {e}")
                ok = False
                continue
            od = ws.dir / top / outdir
            for f in sorted(od.rglob("*.py")):
                rel = f.relative_to(od)
                ref = refdir / rel
                if not ref.exists():
                    cands = [p for p in refdir.glob("*.py") if p.name not in ("__init__.py", "fixtures.py")]
                    if len(cands) == 1 and f.name != "__init__.py":
                        ref = cands[0]
                if not ref.exists():
                    continue
                compared += 1
                if norm_source(f.read_text()) != norm_source(ref.read_text()):
                    ok = False
                    print(f"selftest {name}: {rel} differs from the committed fixture {ref}")
    if verbose:
        print(f"stand-in fidelity self-test: {compared} generated files compared AST-for-AST with committed fixtures: {'OK' if ok else 'FAILED'}")
    return ok and compared >= 20
