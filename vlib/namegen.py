"""Name generators used in generated Meta classes (plain callables, independent of xsdata.utils.text)."""


def upper(name: str) -> str:
    return name.upper()


def suffix(name: str) -> str:
    return name + "X"


def cap(name: str) -> str:
    return name[:1].upper() + name[1:]


GENS = {"upper": upper, "suffix": suffix, "cap": cap}
