"""ModelSpec: harness-side description of binding models (DESIGN §3.2).

A spec is plain data.  From it are derived, independently of each other,
  * real importable dataclasses (python source -> module registered in sys.modules), and
  * the reference expectations used by the oracles (vlib/expect.py).

    spec = {"ns": module __NAMESPACE__ | None, "enums": [EnumSpec], "classes": [ClassSpec], "root": class id}
    EnumSpec  = {"name": str, "base": "str"|"int"|"float"|"decimal"|"qname", "values": [encoded]}
    ClassSpec = {"name", "meta": {...}, "base": id|None, "inner_of": id|None, "frozen", "slots", "kw_only", "eq",
                 "fields": [FieldSpec]}
    FieldSpec = {"py", "kind", "name"|None, "namespace"|absent, "types": [TypeRef], "card": "one"|"opt"|"list",
                 "tokens": 0|1|2, "nillable", "format", "wrapper", "sequence", "default"(encoded)|absent,
                 "required"(attr), "mixed", "choices": [ChoiceSpec], "wild_ns": str}
    TypeRef   = {"p": prim} | {"c": class id} | {"e": enum id}
"""
import contextvars
import dataclasses
import itertools
import sys
import types as pytypes

from hypothesis import strategies as st

from vlib import xsdref as X
from vlib.codec import dec, enc

# ---------------------------------------------------------------------------
# alphabets

# XML 1.0 Char production, without '\r' being special-cased here (it is generated; see DESIGN §5)
_XML_BAD = "".join(map(chr, list(range(0, 9)) + [11, 12] + list(range(14, 32)) + [0xFFFE, 0xFFFF]))
xml_char = st.characters(blacklist_categories=("Cs",), blacklist_characters=_XML_BAD)
xml_char_no_cr = st.characters(blacklist_categories=("Cs",), blacklist_characters=_XML_BAD + "\r")
_interesting = st.sampled_from(["<", ">", "&", "'", '"', "]]>", "&amp;", "<!--", "\t", "\n", " ", "  x ", "é", "日本", "\U0001F600", "a b", "x\ny"])


_cr_rich = st.sampled_from(["a\r", "\r", "\r\r", "x\r\ry", "a\rb", "\r\n", "line one\rline two"])


def xml_text(min_size=0, max_size=8, cr=False):
    ch = xml_char if cr else xml_char_no_cr
    if cr:
        return st.one_of(st.text(ch, min_size=min_size, max_size=max_size), _cr_rich.filter(lambda s: len(s) >= min_size),
                         st.lists(st.one_of(_interesting, st.text(ch, max_size=3)), min_size=max(1, min_size), max_size=3).map("".join))
    return st.one_of(st.text(ch, min_size=min_size, max_size=max_size),
                     st.lists(st.one_of(_interesting, st.text(ch, max_size=3)), min_size=max(1, min_size), max_size=3).map("".join))


token_text = st.text(st.characters(blacklist_categories=("Cs", "Cc", "Z"), blacklist_characters=_XML_BAD + "\x85  "),
                     min_size=1, max_size=5).filter(lambda s: not any(c.isspace() for c in s))

NCNAMES = ["a", "b", "c", "item", "x1", "foo-bar", "Baz", "_u", "é", "v.1", "name", "value", "type", "id", "class", "Order", "q"]
URIS = ["urn:a", "urn:b", "urn:c", "http://x.org/ns"]

# ---------------------------------------------------------------------------
# primitives: python annotation, value strategy (encoded), extra field metadata


def _enc(s):
    return s.map(enc)


from decimal import Decimal  # noqa: E402
import datetime  # noqa: E402
from xml.etree.ElementTree import QName  # noqa: E402
from xsdata.models.datatype import XmlDate, XmlDateTime, XmlDuration, XmlPeriod, XmlTime  # noqa: E402

_qnames = st.builds(lambda u, l: QName(u, l) if u else QName(l), st.sampled_from([None, "urn:q", "urn:a", "urn:b"]), st.sampled_from(["a", "b", "n-1"]))
_durations = X.lex_duration().map(lambda p: XmlDuration(p[0]))
_periods = X.lex_period().map(lambda p: XmlPeriod(p[0]))
_decimals = st.one_of(st.decimals(allow_nan=False, allow_infinity=False, places=3, min_value=-10**6, max_value=10**6),
                      st.sampled_from([Decimal("0"), Decimal("-1.50"), Decimal("1E+3"), Decimal("0.000001")]))

PRIMS = {
    # name: (annotation source, value strategy, metadata extras)
    "str": ("str", None, {}),
    "int": ("int", _enc(st.one_of(st.integers(-10**20, 10**20), st.sampled_from([0, 1, -1, 2**31, 2**63]))), {}),
    "bool": ("bool", st.booleans(), {}),
    "float": ("float", _enc(st.floats()), {}),
    "decimal": ("Decimal", _enc(_decimals), {}),
    "bytes16": ("bytes", _enc(st.binary(max_size=6)), {"format": "base16"}),
    "bytes64": ("bytes", _enc(st.binary(max_size=6)), {"format": "base64"}),
    "qname": ("QName", _enc(_qnames), {}),
    "xdate": ("XmlDate", X.lex_date().map(lambda p: {"xd": list(p[1])}), {}),
    "xtime": ("XmlTime", X.lex_time().map(lambda p: {"xt": list(p[1])}), {}),
    "xdatetime": ("XmlDateTime", X.lex_datetime().map(lambda p: {"xdt": list(p[1])}), {}),
    "xduration": ("XmlDuration", _enc(_durations), {}),
    "xperiod": ("XmlPeriod", _enc(_periods), {}),
    "date": ("datetime.date", _enc(st.dates(min_value=datetime.date(1000, 1, 1))), {"format": "%d/%m/%Y"}),
    "datetime": ("datetime.datetime", _enc(st.datetimes(min_value=datetime.datetime(1000, 1, 1)).map(lambda d: d.replace(microsecond=0))),
                 {"format": "%Y-%m-%dT%H:%M:%S"}),
}
PRIM_NAMES = sorted(PRIMS)
# documented priority (docs/models/types.md) restricted to our prim names; used to keep union values canonical
PRIORITY = ["int", "bool", "float", "decimal", "datetime", "date", "xtime", "xdate", "xdatetime", "xduration", "xperiod", "qname", "str"]

# union type sets whose lexical spaces are disjoint enough to decide membership by construction
UNIONS = [["int", "str"], ["bool", "str"], ["float", "str"], ["int", "xdate"], ["bool", "xduration"], ["decimal", "xtime"],
          ["int", "bool", "str"], ["xdatetime", "xdate", "str"], ["int", "float"], ["qname", "int"]]


_NCNAME_LIKE = __import__("re").compile(r"[^\W\d][\w.\-\u00b7\u0387]*")


def _texty(s, qname_too=False):
    """A str value that no earlier-priority type would claim (so it stays a str on the way back)."""
    t = s.strip()
    if not t:
        return True
    if qname_too and _NCNAME_LIKE.fullmatch(t):
        return False
    for f in (int, float, Decimal):
        try:
            f(t)
            return False
        except Exception:
            pass
    if t in ("true", "false") or X.recognise_period(t)[1] is not X.INVALID:
        return False
    for ty in ("date", "time", "dateTime", "duration"):
        if X.recognise(ty, t) is not X.INVALID:
            return False
    return True


HOSTILE = contextvars.ContextVar("hostile_text", default=False)
_any_text = st.one_of(st.text(max_size=6), st.sampled_from(["\x00", "a\x0bb", "\ufffe", "\x1f", "ok\x08"]),
                      st.sampled_from(["line one\rline two\x0b", "\r\x00", "a\rb\x1f", "x\r\ry\ufffe"]))     # an illegal character after a carriage return


def prim_value(prim, where, cr=False):
    """Strategy of encoded values for primitive `prim` at position `where` (attr|text|elem|token)."""
    if prim == "str" and HOSTILE.get() and where in ("attr", "elem"):
        # mostly legal text, so that a document usually holds a single illegal string (the first one decides the outcome)
        return st.one_of(xml_text(0, 8, cr), xml_text(0, 8, cr), xml_text(0, 8, cr), _any_text)
    if prim in ("bytes16", "bytes64") and where in ("token", "text"):
        return _enc(st.binary(min_size=1, max_size=6))      # an empty token is no token; empty text is no text
    if prim == "str":
        if where == "token":
            return token_text
        if where == "text":
            # "" is not distinguishable from absence for a text node; whitespace-only text is not data either
            return xml_text(1, 8, cr).filter(lambda s: s.strip() != "")
        return xml_text(0, 8, cr)
    return PRIMS[prim][1]


# ---------------------------------------------------------------------------
# spec strategy


class Opts:
    """Knobs for the model generator; each check picks the fragment it needs."""

    def __init__(self, **kw):
        self.max_depth = 2
        self.max_fields = 5
        self.max_list = 3
        self.wildcards = True
        self.compound = True
        self.inheritance = True
        self.any_type = True          # `object` typed elements (anyType primitives)
        self.attributes_map = True
        self.unique_local_names = True   # needed for JSON; XML-only checks may relax it
        self.namespaces = True
        self.name_generators = True
        self.cr = False               # '\r' inside strings
        self.mixed = True
        self.frozen = True
        self.nillable_empty_str = False   # "" in nillable str elements (DESIGN §5, triage item)
        self.wrapper_odds = 5         # 1 in (n+1) list elements gets a wrapper
        self.json_safe = False        # keep the dictionary image unambiguous (C04): see json_kinds()
        self.nesting = True           # inner classes / nested enums
        self.required_none = False    # Optional fields without a default (C18)
        self.anon_container = False   # single wildcards may hold the anonymous container of several elements (C01)
        self.hostile_text = False     # strings over all of Unicode, incl. code points XML 1.0 cannot carry (C03)
        self.mixin_enums = False      # class E(str, Enum) / IntEnum style enumerations (C18 only)
        self.unrepresentable = False  # values XML/JSON cannot tell from "use the default" (C18 only): [] against a
                                      # non-empty default factory, None against a non-None default
        self.__dict__.update(kw)


class _Builder:
    def __init__(self, draw, opts):
        self.draw = draw
        self.o = opts
        self.classes = []
        self.enums = []
        self.names = itertools.count()
        self.used_class_names = set()
        self.used_type_names = set()

    # -- enums ------------------------------------------------------------
    def new_enum(self):
        d = self.draw
        base = d(st.sampled_from(["str", "str", "int", "float", "decimal", "qname"]))
        n = d(st.integers(1, 4))
        if base == "str":
            vals = d(st.lists(st.one_of(token_text, st.sampled_from(["a b", "x", "A", "1", "true", " lead"])), min_size=n, max_size=n, unique=True))
            vals = [v for v in vals if v == v.strip() and v] or ["x"]
        elif base == "int":
            vals = d(st.lists(st.integers(-1000, 1000), min_size=n, max_size=n, unique=True))
        elif base == "float":
            vals = [enc(f) for f in d(st.lists(st.floats(allow_nan=False, allow_infinity=False, width=32), min_size=n, max_size=n, unique=True))]
        elif base == "decimal":
            vals = [enc(x) for x in d(st.lists(st.decimals(allow_nan=False, allow_infinity=False, places=2, min_value=-999, max_value=999), min_size=n, max_size=n, unique=True))]
        else:
            vals = [{"qn": "{%s}%s" % (u, l)} for u, l in d(st.lists(st.tuples(st.sampled_from(["urn:q", "urn:a"]), st.sampled_from(["a", "b", "c"])), min_size=n, max_size=n, unique=True))]
        e = {"name": f"E{len(self.enums)}", "base": base, "values": vals}
        if self.o.mixin_enums and base in ("str", "int") and d(st.integers(0, 2)) == 0:
            e["mixin"] = True
        self.enums.append(e)
        return len(self.enums) - 1

    # -- classes ----------------------------------------------------------
    def json_kinds(self, types):
        out = set()
        for t in types:
            if "c" in t:
                out.add("json:object")
            elif "e" in t:
                b = self.enums[t["e"]]["base"]
                out |= {{"int": "json:int", "float": "json:float"}.get(b, "json:string*"), "json:string"} - ({"json:string"} if b in ("int", "float") else set())
            else:
                k = {"bool": "json:bool", "int": "json:int", "float": "json:float", "str": "json:string"}.get(t["p"], "json:string*")
                out |= {k, "json:string"} if k == "json:string*" else {k}
        return out

    def enum_has_ws(self, types):
        for t in types:
            if "e" in t and self.enums[t["e"]]["base"] == "str" and any(" " in v for v in self.enums[t["e"]]["values"]):
                return True
        return False

    def class_name(self):
        d = self.draw
        base = d(st.sampled_from(["Root", "Item", "Node", "Ordr", "thing", "A", "Élan"]))
        name = base
        while name in self.used_class_names or name.lower() in self.used_type_names:
            name = f"{base}{next(self.names)}"
        self.used_class_names.add(name)
        return name

    def new_class(self, depth, base=None, want_text=None):
        d, o = self.draw, self.o
        c = {"name": self.class_name(), "meta": {}, "base": base, "inner_of": None, "frozen": False, "slots": False,
             "kw_only": False, "eq": True, "fields": []}
        cid = len(self.classes)
        self.classes.append(None)     # reserve the id; completed at the end (children get smaller... larger ids are fine)
        if o.namespaces and d(st.integers(0, 2)) == 0:
            c["meta"]["namespace"] = d(st.sampled_from(URIS[:3]))
        if d(st.integers(0, 3)) == 0:
            # type names are unique per namespace in XSD; keep xsi:type lookups unambiguous
            # (a type whose qualified name equals the name of the element it is used under is written without
            #  xsi:type - recorded finding - so type names live in their own alphabet, ending in "T")
            name = d(st.sampled_from(NCNAMES)) + "T"
            while name.lower() in self.used_type_names:
                name += "t"
            c["meta"]["name"] = name
        self.used_type_names.add(c["meta"].get("name", c["name"]).lower())
        if d(st.integers(0, 7)) == 0:
            c["meta"]["nillable"] = True
        if o.name_generators and d(st.integers(0, 5)) == 0:
            c["meta"]["elem_gen"] = d(st.sampled_from(["upper", "suffix", "cap"]))
        if o.name_generators and d(st.integers(0, 5)) == 0:
            c["meta"]["attr_gen"] = d(st.sampled_from(["upper", "suffix", "cap"]))
        if o.frozen and d(st.integers(0, 4)) == 0:
            c["frozen"] = True
        c["kw_only"] = d(st.booleans())
        c["slots"] = d(st.integers(0, 4)) == 0 and base is None
        c["eq"] = d(st.integers(0, 6)) != 0

        inherited = self.all_fields(base) if base is not None else []
        if base is not None:
            # dataclass inheritance: frozen-ness must match, and fields without defaults cannot follow defaults
            c["frozen"] = self.classes[base]["frozen"]
            c["kw_only"] = True
            c["slots"] = False
        if any(f["kind"] == "Text" and f["tokens"] for f in inherited):
            c["meta"].pop("nillable", None)     # a nil element gives a tokens text field None instead of []
        has_text = any(f["kind"] == "Text" for f in inherited)
        has_elem = any(f["kind"] in ("Element", "Elements", "Wildcard") for f in inherited)
        simple = (want_text if want_text is not None else d(st.integers(0, 4)) == 0) and not has_elem
        used = set()
        for f in inherited:
            used |= {f.get("_local"), f.get("name"), f.get("wrapper")} | {ch["name"] for ch in f.get("choices", ())}
        used.discard(None)
        nfields = d(st.integers(0 if base is not None else 1, o.max_fields))
        if base is not None and o.json_safe:
            # without xsi:type the decoder picks the class by its keys: give every subclass a field it alone requires
            f = self.new_field(c, cid, "Attribute", depth, used, next(self.names))
            f.update(card="one", tokens=0, types=[{"p": "int"}])
            # ... under a key no sibling subclass uses (two siblings requiring the same key are the documented ambiguity again)
            f["name"] = f["_local"] = f"only{cid}"
            f.pop("default", None)
            f.pop("required", None)
            f.pop("default_tokens", None)
            c["fields"].append(f)
        seq_open = None
        # a mixed wildcard owns all child content of its element (also inherited content)
        mixed_wild = any(f.get("mixed") for f in inherited)
        c["_allow_mixed"] = not has_elem and not has_text
        for i in range(nfields):
            kinds = ["Attribute", "Attribute"]
            if simple or has_text:
                if not has_text:
                    kinds += ["Text", "Text"]
            elif not mixed_wild:
                kinds += ["Element"] * 6
                if o.compound:
                    kinds += ["Elements"]
                if o.wildcards and not any(f["kind"] == "Wildcard" for f in c["fields"] + inherited):
                    kinds += ["Wildcard"]
            if o.attributes_map and not any(f["kind"] == "Attributes" for f in c["fields"] + inherited):
                kinds += ["Attributes"]
            if d(st.integers(0, 15)) == 0:
                kinds = ["Ignore"]
            kind = d(st.sampled_from(kinds))
            f = self.new_field(c, cid, kind, depth, used, next(self.names))   # python names unique per model
            if f is None:
                continue
            if kind == "Text":
                has_text = True
            if kind == "Wildcard" and f.get("mixed"):
                mixed_wild = True
            # sequence groups: consecutive element fields may share a number
            if kind == "Element" and not f.get("wrapper") and f.get("tokens") != 1:
                if seq_open is not None and d(st.booleans()):
                    f["sequence"] = seq_open
                elif d(st.integers(0, 4)) == 0:
                    seq_open = f["sequence"] = next(self.names) + 1     # unique, so groups stay consecutive
                else:
                    seq_open = None
            else:
                seq_open = None
            c["fields"].append(f)
        if mixed_wild:
            # a mixed wildcard owns all child content: keep attributes only next to it
            c["fields"] = [f for f in c["fields"] if f["kind"] in ("Attribute", "Attributes", "Wildcard", "Ignore")]
            c["fields"] = [f for f in c["fields"] if f["kind"] != "Wildcard" or f.get("mixed")]
        # dataclass rule: non-default fields first unless kw_only
        if not c["kw_only"]:
            c["fields"].sort(key=lambda f: f["card"] != "one" or "default" in f)
            # sequence groups must stay consecutive: drop the grouping if sorting split one
            self.fix_sequences(c)
        self.classes[cid] = c
        return cid

    @staticmethod
    def fix_sequences(c):
        seen_closed = set()
        prev = None
        for f in c["fields"]:
            s = f.get("sequence")
            if s is not None and s != prev and s in seen_closed:
                for g in c["fields"]:
                    if g.get("sequence") == s:
                        g.pop("sequence")
            if prev is not None and s != prev:
                seen_closed.add(prev)
            prev = s

    def own_namespace(self, cid):
        """Give class `cid` (and its subclasses used via xsi:type) an own Meta.namespace if it has none."""
        c = self.classes[cid]
        if "namespace" not in c["meta"]:
            c["meta"]["namespace"] = self.draw(st.sampled_from(URIS[:3])) if self.o.namespaces else ""
        for other in self.classes:
            if other is not None and other["base"] == cid and "namespace" not in other["meta"]:
                other["meta"]["namespace"] = c["meta"]["namespace"]

    def always_content(self, cid):
        """True if every instance of the class renders some attribute/child/text (so nillable never collapses it)."""
        return any(f["card"] == "one" and f["kind"] in ("Element", "Text") and "default" not in f
                   for f in self.all_fields(cid))

    def all_fields(self, cid):
        c = self.classes[cid]
        out = self.all_fields(c["base"]) if c["base"] is not None else []
        return out + c["fields"]

    def owner(self, f):
        return None

    def local_of(self, c, f):
        return f.get("_local")

    def pick_local(self, used):
        d = self.draw
        name = d(st.sampled_from(NCNAMES))
        k = 0
        while name in used:
            k += 1
            name = f"{name}{k}"
        used.add(name)
        return name

    def type_for_element(self, depth, allow_class=True):
        """-> list of TypeRefs"""
        d, o = self.draw, self.o
        choice = d(st.integers(0, 11))
        if allow_class and depth < o.max_depth and choice <= 3:
            # a nested model: a fresh one, or a completed earlier one (shared child)
            done = [i for i, c in enumerate(self.classes) if c is not None]
            if done and d(st.integers(0, 3)) == 0:
                # a class without its own namespace takes the namespace of the first parent it is used under
                # (metadata is cached per class): that is C14's territory, so shared children carry their own
                shared = d(st.sampled_from(done))
                self.own_namespace(shared)
                return [{"c": shared}]
            return [{"c": self.new_class(depth + 1)}]
        if choice == 4:
            eid = d(st.sampled_from(range(len(self.enums)))) if self.enums and d(st.booleans()) else self.new_enum()
            return [{"e": eid}]
        if choice == 5:
            return [{"p": p} for p in d(st.sampled_from(UNIONS))]
        return [{"p": d(st.sampled_from(PRIM_NAMES))}]

    def new_field(self, c, cid, kind, depth, used, idx):
        d, o = self.draw, self.o
        f = {"py": f"f{idx}", "kind": kind, "card": "opt", "tokens": 0, "nillable": False, "types": []}
        if kind == "Ignore":
            f["types"] = [{"p": "int"}]
            f["default"] = d(st.integers(0, 5))
            f["_local"] = f"__ignored{idx}"
            return f
        if kind == "Attributes":
            f["card"] = "map"
            f["_local"] = f"__attrs{idx}"
            f["wild_ns"] = d(st.sampled_from([None, "##any", "##any", "##other", "##local", "urn:x"])) if o.namespaces else None
            return f
        local = self.pick_local(used)
        f["_local"] = local
        explicit_name = d(st.integers(0, 4)) != 0
        if explicit_name:
            f["name"] = local
        else:
            # no "name": the XML name is derived from the python name by the generator
            f["py"] = _pyname(local, idx)
            f["_local"] = None      # computed by expect.local_name from py + generator
        if kind == "Attribute":
            t = d(st.integers(0, 9))
            if t == 0:
                eid = d(st.sampled_from(range(len(self.enums)))) if self.enums and d(st.booleans()) else self.new_enum()
                f["types"] = [{"e": eid}]
            elif t == 1:
                f["types"] = [{"p": p} for p in d(st.sampled_from(UNIONS))]
            else:
                f["types"] = [{"p": d(st.sampled_from(PRIM_NAMES))}]
            if o.namespaces and d(st.integers(0, 5)) == 0:
                f["namespace"] = d(st.sampled_from(URIS))
            f["card"] = d(st.sampled_from(["one", "opt", "opt", "default"]))
            if d(st.integers(0, 6)) == 0 and len(f["types"]) == 1 and not self.enum_has_ws(f["types"]):
                f["tokens"] = 1
                f["card"] = "list"
            if f["tokens"] == 1 and d(st.integers(0, 3)) == 0:
                self.default_tokens(f)
            if f["card"] == "default":
                f["default"] = self.default_for(f, "attr")
                f["card"] = "opt"
                if f["default"] is None:
                    f.pop("default")
                elif d(st.booleans()):
                    f["required"] = True
            return f
        if kind == "Text":
            t = d(st.integers(0, 7))
            if t == 0:
                eid = d(st.sampled_from(range(len(self.enums)))) if self.enums and d(st.booleans()) else self.new_enum()
                f["types"] = [{"e": eid}]
            elif t == 1:
                f["types"] = [{"p": p} for p in d(st.sampled_from(UNIONS))]
            else:
                f["types"] = [{"p": d(st.sampled_from(PRIM_NAMES))}]
            f.pop("name", None)
            if "name" not in f:
                f["py"] = f"f{idx}"
            f["_local"] = f"__text{idx}"
            f["card"] = d(st.sampled_from(["one", "opt"]))
            if d(st.integers(0, 6)) == 0 and len(f["types"]) == 1 and not c["meta"].get("nillable") and not self.enum_has_ws(f["types"]):
                f["tokens"] = 1
                f["card"] = "list"
            return f
        if kind == "Element":
            f["types"] = self.type_for_element(depth)
            is_class = "c" in f["types"][0]
            if o.namespaces and d(st.integers(0, 4)) == 0:
                f["namespace"] = d(st.sampled_from(["", "urn:a", "urn:c"]))
            f["card"] = d(st.sampled_from(["one", "opt", "opt", "list", "list"]))
            if not is_class and len(f["types"]) == 1 and d(st.integers(0, 6)) == 0 and not self.enum_has_ws(f["types"]):
                f["tokens"] = d(st.sampled_from([1, 1, 2]))
                f["card"] = "list"
            if is_class and "namespace" in f:
                # serializer and parser hand a namespace-less child class different parent namespaces when the
                # field namespace differs from the class namespace (DESIGN §5): such children carry their own
                self.own_namespace(f["types"][0]["c"])
            if f["tokens"] == 1 and d(st.integers(0, 3)) == 0:
                self.default_tokens(f)
            if d(st.integers(0, 5)) == 0 and f["card"] != "one" and "default_tokens" not in f:
                # an instance without any content in a nillable field is written as xsi:nil (documented meaning of
                # nillable: "present even without meaningful content"), so only always-non-empty classes qualify
                # (and an empty list of token lists in a nillable field reads back as one nil entry)
                if (not is_class or self.always_content(f["types"][0]["c"])) and f["tokens"] != 2:
                    f["nillable"] = True
                    if is_class:
                        # nil on a class that is itself nillable means "an empty instance", not None
                        self.classes[f["types"][0]["c"]]["meta"].pop("nillable", None)
            if f["card"] == "list" and f["tokens"] != 2 and d(st.integers(0, o.wrapper_odds)) == 0:
                f["wrapper"] = self.pick_local(used)
            if not is_class and f["card"] == "opt" and not f["nillable"] and d(st.integers(0, 6)) == 0:
                dv = self.default_for(f, "elem")
                if dv is not None:
                    f["default"] = dv
            # inheritance: a field typed with a base class may hold subclass instances (xsi:type)
            if is_class and o.inheritance and d(st.integers(0, 3)) == 0:
                base = f["types"][0]["c"]
                sub = self.new_class(depth + 1, base=base)
                if f["nillable"]:
                    self.classes[sub]["meta"].pop("nillable", None)
                if "namespace" in self.classes[base]["meta"] and "namespace" not in self.classes[sub]["meta"]:
                    self.classes[sub]["meta"]["namespace"] = self.classes[base]["meta"]["namespace"]
                f["subs"] = [sub]
                if d(st.integers(0, 2)) == 0:      # a grandchild: xsi:type two levels below the declared type
                    sub2 = self.new_class(depth + 1, base=sub)
                    for k in ("namespace",):
                        if k in self.classes[sub]["meta"] and k not in self.classes[sub2]["meta"]:
                            self.classes[sub2]["meta"][k] = self.classes[sub]["meta"][k]
                    if f["nillable"]:
                        self.classes[sub2]["meta"].pop("nillable", None)
                    f["subs"].append(sub2)
            return f
        if kind == "Elements":
            n = d(st.integers(2, 3))
            choices, seen_types = [], set()
            # one compound field in six starts with an int choice followed by a bool choice (bool is a subclass of int)
            # ... or with a numeric choice followed by a str choice (a str value may look like a number)
            planned = d(st.sampled_from([[], [], [], [], [], [["int"], ["bool"]], [["int"], ["str"]], [["float"], ["str"]], [["decimal"], ["str"]]]))
            planned = [[{"p": p} for p in tr] for tr in planned]
            for _ in range(n):
                tr = planned.pop(0) if planned else self.type_for_element(depth)
                key = tuple(sorted(str(t) for t in tr))
                tset = {str(t) for t in tr}
                py_types = {_pytype_key(t) for t in tr}
                if o.json_safe:
                    # choices are told apart by the JSON shape of the value only (docs: "will not work for
                    # certain json roundtrips"): keep one choice per JSON kind, one model class at most
                    kinds = self.json_kinds(tr)
                    py_types |= kinds
                    # a string-encoded value ("0", "0001", "true") is offered to every choice in turn, so
                    # string-encoded non-str types cannot share a compound field with numeric/bool choices
                    allk = kinds | {k for k in seen_types if k.startswith("json:")}
                    if "json:string*" in allk and allk & {"json:int", "json:float", "json:bool"}:
                        continue
                    # the dictionary route has no access to a choice's `format`, and cannot match a raw JSON
                    # number to an enumeration choice (recorded findings)
                    if any("p" in t and PRIMS[t["p"]][2].get("format") for t in tr):
                        continue
                    if any("e" in t and self.enums[t["e"]]["base"] in ("int", "float") for t in tr):
                        continue
                if py_types & seen_types:
                    continue            # ambiguous choice types raise XmlContextError by design
                seen_types |= py_types
                ch = {"name": self.pick_local(used), "types": tr, "tokens": 0, "nillable": False}
                if o.namespaces and d(st.integers(0, 5)) == 0:
                    ch["namespace"] = d(st.sampled_from(["urn:a", "urn:c"]))
                    if "c" in tr[0]:
                        self.own_namespace(tr[0]["c"])
                if "c" not in tr[0] and len(tr) == 1 and d(st.integers(0, 8)) == 0 and not self.enum_has_ws(tr):
                    ch["tokens"] = 1
                choices.append(ch)
            if len(choices) < 2:
                return None
            f["choices"] = choices
            f["card"] = d(st.sampled_from(["list", "list", "opt"]))
            if f["card"] != "list":
                for ch in choices:      # a token list in a single-valued compound field would read as several values
                    ch["tokens"] = 0
            f.pop("name", None)
            f["_local"] = f"__choice{idx}"
            f["py"] = f"f{idx}"
            return f
        if kind == "Wildcard":
            f.pop("name", None)
            f["py"] = f"f{idx}"
            f["_local"] = f"__wild{idx}"
            f["card"] = d(st.sampled_from(["opt", "list", "list"]))
            f["wild_ns"] = d(st.sampled_from([None, "##any", "##any", "##other", "##local", "##targetNamespace"])) if o.namespaces else "##any"
            if o.mixed and c.get("_allow_mixed") and f["card"] == "list" and d(st.integers(0, 3)) == 0:
                f["mixed"] = True
            return f
        raise KeyError(kind)

    def default_tokens(self, f):
        """Non-empty default for a tokens field: xsdata generates `default_factory=lambda: [...]` for these."""
        t = f["types"][0]
        if "p" not in t or t["p"] in ("xperiod",):
            return
        n = self.draw(st.integers(1, 2))
        f["default_tokens"] = [self.draw(prim_value(t["p"], "token")) for _ in range(n)]

    def default_for(self, f, where):
        """A non-None default (encoded) for a single-typed primitive/enum field, or None."""
        d = self.draw
        if len(f["types"]) != 1 or f.get("tokens"):
            return None
        t = f["types"][0]
        if "e" in t:
            e = self.enums[t["e"]]
            return {"enum": [t["e"], f"M{d(st.integers(0, len(e['values']) - 1))}"]}
        if "p" in t:
            if t["p"] == "str":
                return d(st.sampled_from(["abc", "x y", "dflt"]))
            if t["p"] == "xperiod":
                return None     # XmlPeriod defines __eq__ without __hash__: dataclasses reject it as a default
            if t["p"] in ("float",):
                return enc(d(st.floats(allow_nan=False)))
            return d(PRIMS[t["p"]][1])
        return None


def _pytype_key(t):
    if "p" in t:
        return PRIMS[t["p"]][0]
    return str(t)


def _pyname(local, idx):
    s = "".join(ch if (ch.isalnum() and ch.isascii()) or ch == "_" else "_" for ch in local)
    if not s or s[0].isdigit() or s[0] == "_":      # leading "__" would be name-mangled inside a class body
        s = "f" + s
    return f"{s}_{idx}"


@st.composite
def model_specs(draw, opts=None):
    o = opts or Opts()
    b = _Builder(draw, o)
    root = b.new_class(0, want_text=False if draw(st.integers(0, 9)) else None)
    spec = {"ns": draw(st.sampled_from([None, None, "urn:m"])) if o.namespaces else None,
            "enums": b.enums, "classes": b.classes, "root": root, "json_safe": bool(o.json_safe)}
    if o.required_none:
        # Optional[...] fields without a default in kw_only classes: the constructor requires them, None is a legal value
        for c in b.classes:
            if c["kw_only"]:
                for f in c["fields"]:
                    if f["card"] == "opt" and "default" not in f and f["kind"] in ("Element", "Attribute") and draw(st.integers(0, 4)) == 0:
                        f["no_default"] = True
    normalize_namespaces(spec)
    if o.nesting:
        nest(draw, spec)
    # a wildcard attribute map also receives the xsi:type / xsi:nil attribute of its element (recorded finding,
    # DESIGN §5): classes that can carry one keep their maps confined to ##local / an explicit URI
    exposed = {c["base"] for c in b.classes if c["base"] is not None} | {i for i, c in enumerate(b.classes) if c["base"] is not None}
    exposed |= {i for i, c in enumerate(b.classes) if c["meta"].get("nillable")}
    for c in b.classes:
        for f in c["fields"]:
            if f.get("nillable"):
                exposed |= {t["c"] for t in f["types"] if "c" in t} | set(f.get("subs", ()))
    for i in exposed:
        for f in all_fields(spec, i):
            if f["kind"] == "Attributes" and f.get("wild_ns") in ("##any", "##other"):
                f["wild_ns"] = "##local"
    return spec


def nest(draw, spec):
    """Turn some enums / leaf classes that are used by exactly one class into inner classes of that class
    (the shape xsdata generates for anonymous types)."""
    import json
    classes = spec["classes"]
    in_hier = {c["base"] for c in classes if c["base"] is not None} | {i for i, c in enumerate(classes) if c["base"] is not None}
    users_e = {i: set() for i in range(len(spec["enums"]))}
    users_c = {i: set() for i in range(len(classes))}
    for ci, c in enumerate(classes):
        txt = json.dumps(c["fields"])
        for ei in users_e:
            if f'"e": {ei}}}' in txt or f'"enum": [{ei},' in txt:
                users_e[ei].add(ci)
        for f in c["fields"]:
            for t in f["types"] + [t for ch in f.get("choices", ()) for t in ch["types"]]:
                if "c" in t:
                    users_c[t["c"]].add(ci)
            for sub in f.get("subs", ()):
                users_c[sub].add(-1)
    for i, c in enumerate(classes):
        u = users_c[i]
        if i != spec["root"] and i not in in_hier and len(u) == 1 and -1 not in u and draw(st.integers(0, 2)) == 0:
            (parent,) = u
            if parent not in in_hier and classes[parent].get("inner_of") is None and parent != i \
                    and not any(o.get("inner_of") == i for o in classes):
                c["inner_of"] = parent
    for ei, u in users_e.items():
        if len(u) == 1 and draw(st.integers(0, 2)) == 0:
            (parent,) = u
            if parent not in in_hier:
                spec["enums"][ei]["inner_of"] = parent


def _class_refs(spec, c):
    """(element namespace or None-if-inherited marker, child class id) for every class-typed use in class c."""
    out = []
    for f in c["fields"]:
        if f["kind"] == "Element":
            for t in f["types"]:
                if "c" in t:
                    out.append((f.get("namespace"), t["c"]))
            for sub in f.get("subs", ()):
                out.append((f.get("namespace"), sub))
        elif f["kind"] == "Elements":
            for ch in f["choices"]:
                for t in ch["types"]:
                    if "c" in t:
                        out.append((ch.get("namespace"), t["c"]))
    return out


def normalize_namespaces(spec):
    """Keep the model inside the fragment where serializer and parser agree on inherited namespaces.

    A class without an own Meta.namespace takes the namespace handed down by its user.  The serializer hands
    down the namespace of the *element actually written*, the parser that of the *parent class*, and the
    metadata is cached per class (first use wins).  Those disagreements are recorded findings (DESIGN §5,
    C14); here every class that would be affected is given an own namespace (the one the parser would use).
    """
    classes = spec["classes"]
    for _ in range(50):
        changed = False
        seen = {}

        def walk(cid, ser_ns, par_ns, written_ns):
            nonlocal changed
            c = classes[cid]
            own = c["meta"].get("namespace")
            eff_ser = (own if own is not None else ser_ns) or None
            eff_par = (own if own is not None else par_ns) or None
            if eff_ser != eff_par or (own is None and seen.setdefault(cid, eff_par) != eff_par):
                c["meta"]["namespace"] = eff_par or ""
                changed = True
                return
            bases = []
            b = c
            while b is not None:
                bases.append(b)
                b = classes[b["base"]] if b["base"] is not None else None
            for owner in bases:
                # fields declared in a base class with its own Meta.namespace inherit *that* namespace
                decl_ns = owner["meta"].get("namespace", eff_par) if owner is not c and owner["meta"] else eff_par
                for fns, child in _class_refs(spec, owner):
                    elem_ns = (fns if fns is not None else decl_ns) or None
                    # the serializer hands the child the namespace of *this* class's written element,
                    # the parser the namespace of this class
                    walk(child, written_ns, eff_par, elem_ns)
        root_ns = classes[spec["root"]]["meta"].get("namespace") or None
        walk(spec["root"], None, None, root_ns)
        if not changed:
            return
    raise RuntimeError("namespace normalisation did not converge")


# ---------------------------------------------------------------------------
# materialisation: spec -> python source -> module

_counter = itertools.count()

HEADER = '''from __future__ import annotations
import datetime
from dataclasses import dataclass, field
from decimal import Decimal
from enum import Enum
from typing import Any, Dict, List, Optional, Tuple, Union
from xml.etree.ElementTree import QName
from xsdata.models.datatype import XmlDate, XmlDateTime, XmlDuration, XmlPeriod, XmlTime
from vlib.namegen import upper, suffix, cap
'''


def literal(v):
    """python source for an encoded value (used for defaults and enum members)."""
    x = dec(v) if not (isinstance(v, dict) and "enum" in v) else None
    if isinstance(v, dict) and "enum" in v:
        return f"E{v['enum'][0]}.{v['enum'][1]}"
    if isinstance(x, float):
        if x != x:
            return "float('nan')"
        if x in (float("inf"), float("-inf")):
            return f"float('{x}')"
        return repr(x)
    if isinstance(x, Decimal):
        return f"Decimal({str(x)!r})"
    if isinstance(x, QName):
        return f"QName({x.text!r})"
    if isinstance(x, (XmlDate, XmlTime, XmlDateTime)):
        return f"{type(x).__name__}({', '.join(repr(i) for i in x)})"
    if isinstance(x, (XmlDuration, XmlPeriod)):
        return f"{type(x).__name__}({x.data!r})"
    if isinstance(x, datetime.datetime):
        return f"datetime.datetime({x.year}, {x.month}, {x.day}, {x.hour}, {x.minute}, {x.second}, {x.microsecond})"
    if isinstance(x, datetime.date):
        return f"datetime.date({x.year}, {x.month}, {x.day})"
    return repr(x)


def qualname(spec, kind, i, inside=None):
    """Qualified python name of class/enum i; relative to class `inside` when it is nested directly in it."""
    if kind == "e":
        owner, name = spec["enums"][i].get("inner_of"), f"E{i}"
    else:
        owner, name = spec["classes"][i].get("inner_of"), spec["classes"][i]["name"]
    if owner is None or owner == inside:
        return name
    return qualname(spec, "c", owner, inside) + "." + name


def type_src(spec, t, inside=None):
    if "p" in t:
        return "object" if t["p"] == "object" else PRIMS[t["p"]][0]
    if "e" in t:
        return qualname(spec, "e", t["e"], inside)
    return qualname(spec, "c", t["c"], inside)


def annotation(spec, f):
    frozen_ctx = f.get("_frozen", False)
    seq = "Tuple[%s, ...]" if frozen_ctx else "List[%s]"
    if f["kind"] == "Attributes":
        return "Dict[str, str]"
    if f["kind"] == "Wildcard":
        return (seq % "object") if f["card"] == "list" else "Optional[object]"
    if f["kind"] == "Elements":
        ts = []
        for ch in f["choices"]:
            inner = [type_src(spec, t) for t in ch["types"]]
            if ch.get("tokens"):
                inner = [seq % " | ".join(inner) if len(inner) == 1 else seq % f"Union[{', '.join(inner)}]"]
            ts += inner
        ts = list(dict.fromkeys(ts))
        u = ts[0] if len(ts) == 1 else f"Union[{', '.join(ts)}]"
        return (seq % u) if f["card"] == "list" else f"Optional[{u}]"
    ts = [type_src(spec, t) for t in f["types"]]
    u = ts[0] if len(ts) == 1 else f"Union[{', '.join(ts)}]"
    if f.get("tokens") == 2:
        return seq % (seq % u)
    if f["card"] == "list":
        return seq % u
    if f["card"] == "opt" and "default" not in f:
        return f"Optional[{u}]"
    if f["card"] == "opt":
        return u
    return u


def field_src(spec, c, f):
    md = {}
    kind = f["kind"]
    md["type"] = kind
    if f.get("name") is not None and kind in ("Attribute", "Element"):
        md["name"] = f["name"]
    if "namespace" in f:
        md["namespace"] = f["namespace"]
    if f.get("wild_ns") is not None:
        md["namespace"] = f["wild_ns"]
    if f.get("tokens"):
        md["tokens"] = True
    if f.get("nillable"):
        md["nillable"] = True
    if f.get("wrapper"):
        md["wrapper"] = f["wrapper"]
    if f.get("sequence") is not None:
        md["sequence"] = f["sequence"]
    if f.get("mixed"):
        md["mixed"] = True
    if f.get("required"):
        md["required"] = True
    for t in f["types"]:
        if "p" in t and PRIMS.get(t["p"], (0, 0, {}))[2].get("format"):
            md["format"] = PRIMS[t["p"]][2]["format"]
    parts = []
    for k, v in md.items():
        parts.append(f"{k!r}: {v!r}")
    if kind == "Elements":
        chs = []
        for ch in f["choices"]:
            inner = [type_src(spec, t, c.get("_cid")) for t in ch["types"]]
            ty = inner[0] if len(inner) == 1 else f"Union[{', '.join(inner)}]"
            cp = [f"'name': {ch['name']!r}", f"'type': " + (f"List[{ty}]" if ch.get("tokens") and not c["frozen"] else (f"Tuple[{ty}, ...]" if ch.get("tokens") else ty))]
            if "namespace" in ch:
                cp.append(f"'namespace': {ch['namespace']!r}")
            if ch.get("tokens"):
                cp.append("'tokens': True")
                cp.append("'default_factory': " + ("tuple" if c["frozen"] else "list"))
            if ch.get("nillable"):
                cp.append("'nillable': True")
            for t in ch["types"]:
                if "p" in t and PRIMS[t["p"]][2].get("format"):
                    cp.append(f"'format': {PRIMS[t['p']][2]['format']!r}")
            chs.append("{" + ", ".join(cp) + "}")
        parts.append("'choices': (" + ", ".join(chs) + ",)")
    meta = "metadata={" + ", ".join(parts) + "}"
    factory = "tuple" if c["frozen"] else "list"
    if kind == "Attributes":
        return f"field(default_factory=dict, {meta})"
    if kind == "Ignore":
        return f"field(default={literal(f['default'])}, {meta})"
    if "default_tokens" in f:
        items = ", ".join(literal(v) for v in f["default_tokens"])
        lit = f"({items},)" if c["frozen"] else f"[{items}]"
        return f"field(default_factory=lambda: {lit}, {meta})"
    if f["card"] == "list":
        return f"field(default_factory={factory}, {meta})"
    if "default" in f:
        return f"field(default={literal(f['default'])}, {meta})"
    if f["card"] == "opt" and not f.get("no_default"):
        return f"field(default=None, {meta})"
    return f"field({meta})"


def _refs(spec, i):
    """class ids referenced by class i (field/choice types and base), including those of classes nested in it."""
    c = spec["classes"][i]
    out = set()
    if c["base"] is not None:
        out.add(c["base"])
    for f in c["fields"]:
        for t in f["types"] + [t for ch in f.get("choices", ()) for t in ch["types"]]:
            if "c" in t:
                out.add(t["c"])
    for j, other in enumerate(spec["classes"]):
        if other.get("inner_of") == i:
            out |= _refs(spec, j) | {j}
    return out


def source(spec, modname):
    lines = [HEADER]
    if spec.get("ns") is not None:
        lines.append(f"__NAMESPACE__ = {spec['ns']!r}\n")

    def emit_enum(i, ind):
        e = spec["enums"][i]
        mix = {"str": "str, ", "int": "int, "}[e["base"]] if e.get("mixin") else ""
        lines.append(f"{ind}class E{i}({mix}Enum):")
        for j, v in enumerate(e["values"]):
            lines.append(f"{ind}    M{j} = {literal(v)}")
        lines.append("")

    def emit_class(i, ind):
        c = spec["classes"][i]
        args = []
        for k in ("frozen", "slots", "kw_only"):
            if c.get(k):
                args.append(f"{k}=True")
        if not c.get("eq", True):
            args.append("eq=False")
        lines.append(f"{ind}@dataclass({', '.join(args)})" if args else f"{ind}@dataclass")
        base = f"({qualname(spec, 'c', c['base'])})" if c["base"] is not None else ""
        lines.append(f"{ind}class {c['name']}{base}:")
        lines.append(f"{ind}    __vid__ = {i}")
        for j, e in enumerate(spec["enums"]):
            if e.get("inner_of") == i:
                emit_enum(j, ind + "    ")
        for j, other in enumerate(spec["classes"]):
            if other.get("inner_of") == i:
                emit_class(j, ind + "    ")
        m = c["meta"]
        if m:
            lines.append(f"{ind}    class Meta:")
            for k in ("name", "namespace", "nillable", "target_namespace", "global_type"):
                if k in m:
                    lines.append(f"{ind}        {k} = {m[k]!r}")
            if "elem_gen" in m:
                lines.append(f"{ind}        element_name_generator = {m['elem_gen']}")
            if "attr_gen" in m:
                lines.append(f"{ind}        attribute_name_generator = {m['attr_gen']}")
        for f in c["fields"]:
            f2 = dict(f, _frozen=c["frozen"])
            lines.append(f"{ind}    {f['py']}: {annotation(spec, f2)} = {field_src(spec, dict(c, _cid=i), f)}")
        if not c["fields"] and not m:
            lines.append(f"{ind}    pass")
        lines.append("")

    for i, e in enumerate(spec["enums"]):
        if e.get("inner_of") is None:
            emit_enum(i, "")
    # top-level classes in dependency order (choice metadata and base classes need real objects; the graph is a DAG)
    order = []

    def top(i):
        while spec["classes"][i].get("inner_of") is not None:
            i = spec["classes"][i]["inner_of"]
        return i

    def visit(i):
        if i in order:
            return
        for r in sorted(_refs(spec, i)):
            if top(r) != i:
                visit(top(r))
        order.append(i)
    for i in range(len(spec["classes"])):
        visit(top(i))
    for i in order:
        emit_class(i, "")
    return "\n".join(lines)


class Model:
    """A materialised spec: module, classes by id, enums by id."""

    def __init__(self, spec):
        self.spec = spec
        self.modname = f"vmodels_{next(_counter)}"
        self.src = source(spec, self.modname)
        mod = pytypes.ModuleType(self.modname)
        mod.__dict__["__name__"] = self.modname
        sys.modules[self.modname] = mod
        try:
            exec(compile(self.src, f"<{self.modname}>", "exec"), mod.__dict__)
        except Exception:
            sys.modules.pop(self.modname, None)
            raise
        self.module = mod
        def get(path):
            obj = mod
            for part in path.split("."):
                obj = getattr(obj, part)
            return obj
        self.classes = [get(qualname(spec, "c", i)) for i in range(len(spec["classes"]))]
        self.enums = [get(qualname(spec, "e", i)) for i in range(len(spec["enums"]))]
        for i, e in enumerate(self.enums):
            e.__vid__ = i
        self.root = self.classes[spec["root"]]

    def resolve(self, kind, key):
        if kind == "enum":
            return self.enums[key]
        if kind == "class":
            if key == "AnyElement":
                from xsdata.formats.dataclass.models.generics import AnyElement
                return AnyElement
            if key == "DerivedElement":
                from xsdata.formats.dataclass.models.generics import DerivedElement
                return DerivedElement
            return self.classes[key]
        if kind == "build":
            cls, kw = key
            init = {f.name for f in dataclasses.fields(cls) if f.init}
            return cls(**{k: v for k, v in kw.items() if k in init})
        raise KeyError(kind)

    def decode(self, data):
        return dec(data, self.resolve)

    def dispose(self):
        sys.modules.pop(self.modname, None)


# ---------------------------------------------------------------------------
# instances: spec -> strategy of encoded instances


def all_fields(spec, cid):
    c = spec["classes"][cid]
    out = all_fields(spec, c["base"]) if c["base"] is not None else []
    return out + c["fields"]


def fields_with_decl_ns(spec, cid, class_ns):
    """(field, namespace its declaring class contributes) - fields declared in a base class that has a Meta
    inherit *that* Meta's namespace (builders.py: build_vars)."""
    chain = []
    c = cid
    while c is not None:
        chain.append(c)
        c = spec["classes"][c]["base"]
    out = []
    for owner in reversed(chain):
        oc = spec["classes"][owner]
        ns = class_ns
        if owner != cid and oc["meta"]:
            ns = oc["meta"].get("namespace", class_ns) or None
        for f in oc["fields"]:
            out.append((f, ns))
    return out


def is_frozen(spec, cid):
    return spec["classes"][cid]["frozen"]


def _seq(frozen, items):
    return {"tup": items} if frozen else items


def enum_member(spec, eid, draw):
    e = spec["enums"][eid]
    return {"enum": [eid, f"M{draw(st.integers(0, len(e['values']) - 1))}"]}


def _union_value(draw, spec, types, where, cr):
    """A value of one member type that is canonical under the documented priority."""
    prims = [t["p"] for t in types]
    pick = draw(st.sampled_from(prims))
    v = draw(prim_value(pick, where, cr))
    if pick == "str":
        s = v
        if not _texty(s) or (where != "token" and s != s.strip() and any(p != "str" for p in prims)):
            return "txt"
        if "qname" in prims:
            return "plain text"
    if pick == "float" and "int" in prims:
        # xsdata writes 1.0 as "1.0" which is not an xs:integer form: stays a float. Keep as is.
        pass
    if pick == "qname" and "int" in prims:
        pass
    return v


def value_for_types(draw, spec, types, where, cr, frozen, parent_ns=None):
    if len(types) > 1:
        return _union_value(draw, spec, types, where, cr)
    t = types[0]
    if "e" in t:
        return enum_member(spec, t["e"], draw)
    if "c" in t:
        return instance_of(draw, spec, t["c"], cr, parent_ns)
    return draw(prim_value(t["p"], where, cr))


def wildcard_qnames(wild_ns, class_ns):
    """Top-level element names a wildcard with that namespace constraint accepts (XSD wildcard semantics)."""
    loc = ["w", "x", "y"]

    def q(u):
        return [("{%s}%s" % (u, n)) if u else n for n in loc]
    if wild_ns == "##any":
        return loc + q("urn:w") + q("urn:z") + (q(class_ns) if class_ns else [])
    if wild_ns == "##local":
        return loc
    if wild_ns == "##other":
        return [x for u in ("urn:w", "urn:z") if u != class_ns for x in q(u)]
    if wild_ns in (None, "##targetNamespace"):
        # no namespace given: the field inherits the class namespace
        return q(class_ns)
    return q(wild_ns)


def any_element(draw, depth=0, top=None):
    """An AnyElement tree as documented for wildcard values (the shape the parser itself produces)."""
    q = draw(st.sampled_from(top if top else ["w", "x", "y", "{urn:w}w", "{urn:a}x", "{urn:z}z"]))
    attrs = {}
    for _ in range(draw(st.integers(0, 2))):
        attrs[draw(st.sampled_from(["k", "j", "{urn:w}k"]))] = draw(st.sampled_from(["v", "", "1", "a b"]))
    children = []
    if depth < 2:
        for _ in range(draw(st.integers(0, 2))):
            children.append(any_element(draw, depth + 1))
    # the parser gives every generic element a text of "" when it has none
    text = draw(st.sampled_from(["t", "some text", "1", "<&>"])) if draw(st.booleans()) else ""
    tail = draw(st.sampled_from([None, None, "tail", "z"])) if depth > 0 else None
    return {"obj": "AnyElement", "kw": {"qname": q, "text": text, "tail": tail, "children": children,
                                        "attributes": {"map": [[k, v] for k, v in attrs.items()]}}}


UNREPRESENTABLE = contextvars.ContextVar("unrepresentable", default=False)
ANON_CONTAINER = contextvars.ContextVar("anon_container", default=False)


def instance_of(draw, spec, cid, cr=False, parent_ns=None):
    c = spec["classes"][cid]
    frozen = c["frozen"]
    class_ns = c["meta"].get("namespace", parent_ns) or None
    kw = {}
    inst_ns = class_ns
    for f, class_ns in fields_with_decl_ns(spec, cid, inst_ns):
        kind = f["kind"]
        py = f["py"]
        if kind == "Ignore":
            continue
        if kind == "Attributes":
            n = draw(st.integers(0, 2))
            m = []
            for i in range(n):
                ns = f.get("wild_ns")
                key = draw(st.sampled_from(["zz", "yy", "{urn:o}zz"] if ns == "##any" else
                                           (["{urn:o}zz", "{urn:p}yy"] if ns == "##other" else
                                            (["zz", "yy"] if ns in (None, "##local") else ["{urn:x}zz", "{urn:x}yy"]))))
                if key not in [k for k, _ in m]:
                    m.append([key, draw(st.sampled_from(["v", "", "1", "x y", "<&\"'>"]))])
            kw[py] = {"map": m}
            continue
        where = {"Attribute": "attr", "Text": "text"}.get(kind, "elem")
        if kind in ("Attribute", "Text", "Element"):
            if f.get("tokens") == 2:
                outer = []
                for _ in range(draw(st.integers(0, 2))):
                    inner = [value_for_types(draw, spec, f["types"], "token", cr, frozen) for _ in range(draw(st.integers(1, 3)))]
                    outer.append(_seq(frozen, inner))
                kw[py] = _seq(frozen, outer)
            elif f.get("tokens"):
                n = draw(st.integers(0, 3))
                if "default_tokens" in f:
                    # an empty list is written as "absent", i.e. "use the default": not representable
                    n = max(n, 1) if not UNREPRESENTABLE.get() else n
                    if draw(st.integers(0, 2)) == 0:
                        kw[py] = _seq(frozen, list(f["default_tokens"]))
                        continue
                kw[py] = _seq(frozen, [value_for_types(draw, spec, f["types"], "token", cr, frozen) for _ in range(n)])
            elif f["card"] == "list":
                items = []
                for _ in range(draw(st.integers(0, 3))):
                    items.append(_elem_value(draw, spec, f, where, cr, frozen, inst_ns))
                kw[py] = _seq(frozen, items)
            elif f["card"] == "opt" and ("default" not in f or UNREPRESENTABLE.get()) and draw(st.integers(0, 2)) == 0:
                kw[py] = None
            elif "default" in f and draw(st.integers(0, 2)) == 0:
                kw[py] = f["default"]
            else:
                kw[py] = _elem_value(draw, spec, f, where, cr, frozen, inst_ns)
        elif kind == "Elements":
            def one():
                ch = draw(st.sampled_from(f["choices"]))
                if ch.get("tokens"):
                    toks = [value_for_types(draw, spec, ch["types"], "token", cr, frozen) for _ in range(draw(st.integers(1, 3)))]
                    toks = [("t:" + t) if isinstance(t, str) and not _texty(t, qname_too=True) else t for t in toks]
                    return _seq(frozen, toks)
                v = _nonempty(value_for_types(draw, spec, ch["types"], "elem", cr, frozen, inst_ns), ch, {})
                if isinstance(v, str) and [t.get("p") for t in ch["types"]] == ["str"] and not spec.get("json_safe") and draw(st.integers(0, 3)) == 0:
                    # a str value that an earlier numeric choice could also claim: the exact type decides (XML routes only; in JSON
                    # the value's JSON kind is all there is)
                    return draw(st.sampled_from(["42", "007", "1e3", "-0", "1.50", "true"]))
                if isinstance(v, str) and not _texty(v, qname_too=True):
                    # the dictionary routes offer a value to the first choice whose type accepts it
                    v = "t: " + v
                return v
            if f["card"] == "list":
                kw[py] = _seq(frozen, [one() for _ in range(draw(st.integers(0, 4)))])
            else:
                kw[py] = None if draw(st.integers(0, 2)) == 0 else one()
        elif kind == "Wildcard":
            top = wildcard_qnames(f.get("wild_ns"), class_ns)
            if f.get("mixed"):
                # the shape the parser produces: leading text as a plain string, then generic elements whose
                # following text is their `tail`
                items = []
                if draw(st.booleans()):
                    items.append(draw(st.sampled_from(["some text", "x", " padded ", "<&>"])))
                for _ in range(draw(st.integers(0, 3))):
                    el = any_element(draw, 1, top)
                    el["kw"]["tail"] = draw(st.sampled_from([None, None, "tail", " t ", "<&>"]))
                    items.append(el)
                kw[py] = _seq(frozen, items)
            elif f["card"] == "list":
                kw[py] = _seq(frozen, [_strip_tail(any_element(draw, 0, top)) for _ in range(draw(st.integers(0, 3)))])
            elif ANON_CONTAINER.get() and cid == spec["root"] and not c["meta"].get("nillable") and f.get("sequence") is None \
                    and draw(st.integers(0, 2)) == 0:
                # (root level only: deeper placements - nillable classes, sequence groups, repeated parents - showed three
                # differences at thorough depth that were not triaged, see DESIGN §8.7 and observations/)
                # what the parser builds when a single wildcard receives several elements: an anonymous container
                kids = [_strip_tail(any_element(draw, 0, top)) for _ in range(draw(st.integers(2, 3)))]
                kw[py] = {"obj": "AnyElement", "kw": {"qname": None, "text": None, "tail": None, "children": kids, "attributes": {"map": []}}}
            else:
                kw[py] = None if draw(st.booleans()) else _strip_tail(any_element(draw, 0, top))
    return {"obj": cid, "kw": kw}


def _nonempty(v, f, fdef):
    """'' / b'' in a nillable element is read back as nil, and '' in an element with a default means "use the
    default" (XSD semantics for empty elements): such values are outside the representable domain."""
    if (f.get("nillable") or "default" in fdef) and v in ("", {"b": ""}):
        return "e" if v == "" else {"b": "00"}
    return v


def _strip_tail(el):
    el["kw"]["tail"] = None
    return el


def _elem_value(draw, spec, f, where, cr, frozen, parent_ns=None):
    subs = f.get("subs")
    if subs and draw(st.booleans()):
        return instance_of(draw, spec, draw(st.sampled_from(subs)), cr, parent_ns)
    v = value_for_types(draw, spec, f["types"], where, cr, frozen, parent_ns)
    return _nonempty(v, f, f) if where == "elem" else v


@st.composite
def model_and_instance(draw, opts=None):
    o = opts or Opts()
    spec = draw(model_specs(o))
    tok = UNREPRESENTABLE.set(o.unrepresentable)
    tok2 = HOSTILE.set(o.hostile_text)
    tok3 = ANON_CONTAINER.set(o.anon_container)
    try:
        inst = instance_of(draw, spec, spec["root"], o.cr, None)
    finally:
        UNREPRESENTABLE.reset(tok)
        HOSTILE.reset(tok2)
        ANON_CONTAINER.reset(tok3)
    return {"spec": spec, "inst": inst}


# ---------------------------------------------------------------------------
# measures used by non-triviality rules


def instance_stats(inst, spec):
    """(field kinds populated, nesting depth, node count) of an encoded instance."""
    kinds, maxd, nodes = set(), 0, 0

    def walk(x, d):
        nonlocal maxd, nodes
        if isinstance(x, dict) and "obj" in x:
            nodes += 1
            maxd = max(maxd, d)
            if isinstance(x["obj"], int):
                fs = {f["py"]: f for f in all_fields(spec, x["obj"])}
                for k, v in x["kw"].items():
                    if v is not None and v != [] and v != {"tup": []} and v != {"map": []}:
                        kinds.add(fs[k]["kind"] if k in fs else "?")
                    walk(v, d + 1)
            else:
                for v in x["kw"].values():
                    walk(v, d + 1)
        elif isinstance(x, list):
            for i in x:
                walk(i, d)
        elif isinstance(x, dict) and "tup" in x:
            for i in x["tup"]:
                walk(i, d)
    walk(inst, 1)
    return kinds, maxd, nodes


def has_plain_qname(data):
    """Does the (encoded) data contain a QName without a namespace?"""
    if isinstance(data, dict):
        if set(data) == {"qn"}:
            return not data["qn"].startswith("{")
        return any(has_plain_qname(v) for v in data.values())
    if isinstance(data, list):
        return any(has_plain_qname(v) for v in data)
    return False


def has_plain_type(spec):
    """Is there a class reachable through xsi:type whose target name has no namespace?"""
    if spec.get("ns"):
        return False
    for c in spec["classes"]:
        if c["base"] is not None and not (c["meta"].get("target_namespace") or c["meta"].get("namespace")):
            return True
    return False


def model_uris(*data):
    """Namespace URIs that occur anywhere in the given (encoded) spec / instance data."""
    import json
    import re
    txt = json.dumps(data)
    return sorted(set(re.findall(r"(?:urn:[a-z]+|http://x\.org/ns)", txt)))
