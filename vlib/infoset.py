"""Canonical infoset over an independent (libxml2, strict) parse (DESIGN §3.3).

canon(element) -> ("el", qname, ((attr-qname, value), ...) sorted, (child | "text", ...))

Options
  strip_ws     : drop whitespace-only text nodes next to child elements (element-only content / pretty printing)
  resolve      : rewrite `prefix:local` tokens in text and attribute values to `{uri}local` using the namespace
                 declarations in scope at that element (so two documents that only differ in prefix choice are
                 equal, and a QName value whose prefix is not declared in scope differs from one that is)
  unordered    : children as sorted multisets
"""
import re

from lxml import etree

STRICT = etree.XMLParser(recover=False, remove_comments=False, remove_pis=False, resolve_entities=False,
                         huge_tree=False, no_network=True, remove_blank_text=False)

_TOKEN = re.compile(r"^([^\W\d][\w.\-]*):([^\W\d][\w.\-]*)$")


def parse_strict(data):
    """Strict, non-recovering parse with libxml2; raises etree.XMLSyntaxError on malformed input."""
    if isinstance(data, str):
        data = data.encode("utf-8") if not data.lstrip().startswith("<?xml") else data.encode(_declared_encoding(data))
    return etree.fromstring(data, STRICT)


def _declared_encoding(text):
    m = re.match(r"<\?xml[^>]*encoding=[\"']([A-Za-z0-9._\-]+)[\"']", text.lstrip())
    return m.group(1) if m else "utf-8"


def _resolve(value, nsmap):
    if value is None or ":" not in value:
        return value
    out = []
    changed = False
    for tok in re.split(r"(\s+)", value):
        m = _TOKEN.match(tok)
        if m and m.group(1) in nsmap:
            out.append("{%s}%s" % (nsmap[m.group(1)], m.group(2)))
            changed = True
        else:
            out.append(tok)
    return "".join(out) if changed else value


def canon(el, strip_ws=False, resolve=False, unordered=False, _top=True):
    if not isinstance(el.tag, str):
        return None
    nsmap = el.nsmap if resolve else None
    attrs = []
    for k, v in el.attrib.items():
        attrs.append((k, _resolve(v, nsmap) if resolve else v))
    attrs.sort()
    items = []
    has_child = any(isinstance(c.tag, str) for c in el)

    def add_text(t):
        if t is None or t == "":
            return
        if strip_ws and has_child and not t.strip():
            return
        t = _resolve(t, nsmap) if resolve and not has_child else t
        if items and isinstance(items[-1], str):
            items[-1] += t
        else:
            items.append(t)
    add_text(el.text)
    for c in el:
        if isinstance(c.tag, str):
            items.append(canon(c, strip_ws, resolve, unordered, False))
        add_text(c.tail)      # also the tail of comments / PIs belongs to the parent's character data
    if unordered:
        items = sorted(items, key=repr)
    return ("el", el.tag, tuple(attrs), tuple(items))


def canon_doc(data, **kw):
    root = parse_strict(data) if isinstance(data, (str, bytes)) else data
    return canon(root, **kw)


def diff(a, b, path=""):
    """First difference between two canonical trees, as text."""
    if a == b:
        return None
    if isinstance(a, str) or isinstance(b, str) or a is None or b is None:
        return f"{path}: {a!r} != {b!r}"[:400]
    if a[1] != b[1]:
        return f"{path}: element {a[1]} != {b[1]}"
    p = f"{path}/{a[1]}"
    if a[2] != b[2]:
        return f"{p}: attributes {dict(a[2])} != {dict(b[2])}"[:400]
    if len(a[3]) != len(b[3]):
        def names(t):
            return [x if isinstance(x, str) else x[1] for x in t]
        return f"{p}: children {names(a[3])} != {names(b[3])}"[:400]
    for x, y in zip(a[3], b[3]):
        d = diff(x, y, p)
        if d:
            return d
    return f"{p}: differ"


def count_elements(c):
    return 0 if isinstance(c, str) or c is None else 1 + sum(count_elements(x) for x in c[3])
