"""`run.py --setup`: offline dependency step + stand-in fidelity self-test (DESIGN §1.1)."""
import sys


def main(shims):
    import hypothesis
    import xsdata
    print(f"setup: hypothesis {hypothesis.__version__}; xsdata from {xsdata.__file__}; stand-ins in use: {shims}")
    try:
        from vlib import codegen
    except ImportError:
        return 0
    rc = codegen.fidelity_selftest(verbose=True)
    return 0 if rc else 2
