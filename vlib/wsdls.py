"""WsdlSpec: generated WSDL 1.1 / SOAP 1.1 definitions with the envelopes they prescribe (C17).

    spec = {"tns": uri, "xsd_ns": uri, "inline": bool, "style": "document" | "rpc", "location": url, "binding": name, "service": name,
            "elements": {name: [(child, xsd type), ...]},          global elements with a sequence of simple children
            "types": {name: [(child, xsd type), ...]},             named complex types
            "ops": [{"name", "action", "input": [PART...], "output": [PART...], "header": PART | None, "fault": PART | None}]}
    PART = {"name": part name, "element": element name} | {"name": part name, "type": xsd builtin | complex type name}

The expected envelopes are written by this module from the spec alone (WSDL 1.1 section 3.5 / WS-I BP: document style = the part's
element as child of Body; rpc style = a wrapper named after the operation (+ "Response"; the output message carries that name too, so the
message-name reading of SOAP 1.1 section 7.1 gives the same envelope) in the soap:body namespace with one
unqualified child per part, named after the part).
"""
from hypothesis import strategies as st

SOAP_ENV = "http://schemas.xmlsoap.org/soap/envelope/"
XS = "http://www.w3.org/2001/XMLSchema"
SIMPLE = {"string": ["abc", "x y", "é"], "int": ["0", "-12", "77"], "boolean": ["true", "false"], "decimal": ["1.5", "10"], "date": ["2001-10-26"],
          "dateTime": ["2001-10-26T21:32:52"], "double": ["1.5", "-2.25"], "long": ["9223372036854775807"]}
OPS = ["Add", "GetQuote", "submitOrder", "Ping", "list_items", "Cancel", "Lookup"]
FIELDS = ["intA", "intB", "symbol", "amount", "when", "flag", "note", "id", "qty"]


@st.composite
def wsdl_specs(draw):
    tns = draw(st.sampled_from(["http://tempuri.org/", "http://example.com/svc", "urn:svc:orders"]))
    xsd_ns = draw(st.sampled_from([tns, "urn:svc:types", "http://example.com/types"]))
    style = draw(st.sampled_from(["document", "rpc"]))
    spec = {"tns": tns, "xsd_ns": xsd_ns, "inline": draw(st.booleans()), "style": style,
            "location": draw(st.sampled_from(["http://localhost:8080/svc", "https://example.com/soap/endpoint?x=1", "http://h/a%20b"])),
            "binding": draw(st.sampled_from(["CalcSoap", "OrdersBinding", "svc_binding"])), "service": draw(st.sampled_from(["Calc", "OrderService"])),
            "elements": {}, "types": {}, "ops": [], "split": draw(st.integers(0, 2)) == 0}

    def children():
        names = draw(st.lists(st.sampled_from(FIELDS), min_size=1, max_size=3, unique=True))
        return [[n, draw(st.sampled_from(sorted(SIMPLE)))] for n in names]

    def element(name):
        spec["elements"][name] = children()
        return name

    names = draw(st.lists(st.sampled_from(OPS), min_size=1, max_size=4, unique=True))
    for i, op in enumerate(names):
        o = {"name": op, "action": draw(st.sampled_from([f"{tns.rstrip('/')}/{op}", f"urn:action:{op}", op])), "header": None, "header2": None, "fault": None}
        for side, suffix in (("input", ""), ("output", "Response")):
            if style == "document":
                o[side] = [{"name": draw(st.sampled_from(["parameters", "body", "payload"])), "element": element(f"{op}{suffix}")}]
            else:
                parts = []
                for pn in draw(st.lists(st.sampled_from(["a", "b", "arg0", "result", "item"]), min_size=1, max_size=3, unique=True)):
                    if draw(st.integers(0, 3)) == 0:
                        tn = f"{op}{suffix}{pn.capitalize()}Type"
                        spec["types"][tn] = children()
                        parts.append({"name": pn, "type": tn})
                    else:
                        parts.append({"name": pn, "type": draw(st.sampled_from(sorted(SIMPLE)))})
                o[side] = parts
        if draw(st.integers(0, 2)) == 0:
            # the header part lives in a message of its own, or in the input message next to the body parts (soap:body parts=...);
            # in the second case its name extends the name of a body part
            same = draw(st.booleans())
            o["header"] = {"name": (o["input"][0]["name"] + "Header") if same else "hdr", "element": element(f"{op}Header"), "same_message": same}
            if not same and draw(st.booleans()):
                o["header2"] = {"name": "hdr2", "element": element(f"{op}Header2")}
        # soap:operation may override the binding style and may leave soapAction out
        o["style"] = draw(st.sampled_from([None, None, "document", "rpc"])) if i > 0 or draw(st.booleans()) else None
        if o["style"] == style:
            o["style"] = None
        if o["style"] is not None:
            for side, suffix in (("input", ""), ("output", "Response")):
                if o["style"] == "document":
                    o[side] = [{"name": o[side][0]["name"], "element": element(f"{op}{suffix}")}]
                else:
                    o[side] = [{"name": p["name"], "type": "string"} for p in o[side]]
            if o["header"] and o["header"]["same_message"]:
                o["header"]["name"] = o["input"][0]["name"] + "Header"
        if o["header"] and o["header"]["same_message"] and (o["style"] or style) == "rpc":
            # the rpc wrapper class takes every part of the message whatever soap:body parts= selects (recorded finding)
            o["header"]["same_message"], o["header"]["name"] = False, "hdr"
        if draw(st.integers(0, 3)) == 0:
            o["action"] = None
        if draw(st.integers(0, 2)) == 0:
            o["fault"] = {"name": "fault", "element": element(f"{op}Fault")}
        spec["ops"].append(o)
    return spec


def render_xsd(spec):
    out = [f'<xs:schema xmlns:xs="{XS}" xmlns:x="{spec["xsd_ns"]}" targetNamespace="{spec["xsd_ns"]}" elementFormDefault="qualified">']
    for name, kids in spec["elements"].items():
        out.append(f'<xs:element name="{name}"><xs:complexType><xs:sequence>' +
                   "".join(f'<xs:element name="{c}" type="xs:{t}"/>' for c, t in kids) + "</xs:sequence></xs:complexType></xs:element>")
    for name, kids in spec["types"].items():
        out.append(f'<xs:complexType name="{name}"><xs:sequence>' + "".join(f'<xs:element name="{c}" type="xs:{t}"/>' for c, t in kids) +
                   "</xs:sequence></xs:complexType>")
    out.append("</xs:schema>")
    return "\n".join(out)


def split_elements(spec):
    """(elements of the imported document, elements of the main document) when the definitions are split over two WSDL files."""
    main = {n: k for n, k in spec["elements"].items() if n.endswith(("Header", "Header2", "Fault"))}
    if not spec.get("split") or not spec["inline"] or not main or len(main) == len(spec["elements"]):
        return None
    return {n: k for n, k in spec["elements"].items() if n not in main}, main


def render_part_wsdl(spec):
    """The imported document: the same target namespace, an inline schema with the body elements and the named types."""
    part, _ = split_elements(spec)
    sub = dict(spec, elements=part)
    return ('<?xml version="1.0" encoding="UTF-8"?>\n'
            f'<wsdl:definitions xmlns:wsdl="http://schemas.xmlsoap.org/wsdl/" xmlns:xs="{XS}" targetNamespace="{spec["tns"]}" name="{spec["service"]}Part">'
            f"<wsdl:types>{render_xsd(sub)}</wsdl:types></wsdl:definitions>")


def render_wsdl(spec):
    tns = spec["tns"]
    out = ['<?xml version="1.0" encoding="UTF-8"?>',
           f'<wsdl:definitions xmlns:wsdl="http://schemas.xmlsoap.org/wsdl/" xmlns:soap="http://schemas.xmlsoap.org/wsdl/soap/" xmlns:xs="{XS}" '
           f'xmlns:tns="{tns}" xmlns:x="{spec["xsd_ns"]}" targetNamespace="{tns}" name="{spec["service"]}">', "<wsdl:types>"]
    parts = split_elements(spec)
    if parts:
        out.insert(2, f'<wsdl:import namespace="{tns}" location="part.wsdl"/>')
        out.append(render_xsd(dict(spec, elements=parts[1], types={})))
    elif spec["inline"]:
        out.append(render_xsd(spec))
    else:
        out.append(f'<xs:schema><xs:import namespace="{spec["xsd_ns"]}" schemaLocation="types.xsd"/></xs:schema>')
    out.append("</wsdl:types>")

    def part(p):
        if "element" in p:
            return f'<wsdl:part name="{p["name"]}" element="x:{p["element"]}"/>'
        return f'<wsdl:part name="{p["name"]}" type="{"xs" if p["type"] in SIMPLE else "x"}:{p["type"]}"/>'
    for o in spec["ops"]:
        same = o["header"] and o["header"].get("same_message")
        out.append(f'<wsdl:message name="{o["name"]}Request">' + "".join(part(p) for p in o["input"]) + (part(o["header"]) if same else "") + "</wsdl:message>")
        out.append(f'<wsdl:message name="{o["name"]}Response">' + "".join(part(p) for p in o["output"]) + "</wsdl:message>")
        if o["header"] and not same:
            out.append(f'<wsdl:message name="{o["name"]}Hdr">{part(o["header"])}</wsdl:message>')
        if o.get("header2"):
            out.append(f'<wsdl:message name="{o["name"]}Hdr2">{part(o["header2"])}</wsdl:message>')
        if o["fault"]:
            out.append(f'<wsdl:message name="{o["name"]}Flt">{part(o["fault"])}</wsdl:message>')
    out.append(f'<wsdl:portType name="{spec["service"]}Port">')
    for o in spec["ops"]:
        out.append(f'<wsdl:operation name="{o["name"]}"><wsdl:input message="tns:{o["name"]}Request"/><wsdl:output message="tns:{o["name"]}Response"/>' +
                   (f'<wsdl:fault name="{o["name"]}Fault" message="tns:{o["name"]}Flt"/>' if o["fault"] else "") + "</wsdl:operation>")
    out.append("</wsdl:portType>")
    out.append(f'<wsdl:binding name="{spec["binding"]}" type="tns:{spec["service"]}Port">'
               f'<soap:binding style="{spec["style"]}" transport="http://schemas.xmlsoap.org/soap/http"/>')
    for o in spec["ops"]:
        st_ = o.get("style") or spec["style"]
        same = o["header"] and o["header"].get("same_message")
        ns_attr = "" if st_ == "document" else f' namespace="{tns}"'
        body_out = f'<soap:body use="literal"{ns_attr}/>'
        body_in = f'<soap:body use="literal"{ns_attr}' + (f' parts="{" ".join(p["name"] for p in o["input"])}"' if same else "") + "/>"
        hdr = f'<soap:header message="tns:{o["name"]}{"Request" if same else "Hdr"}" part="{o["header"]["name"]}" use="literal"/>' if o["header"] else ""
        if o.get("header2"):
            hdr += f'<soap:header message="tns:{o["name"]}Hdr2" part="hdr2" use="literal"/>'
        soap_op = "<soap:operation" + (f' soapAction="{o["action"]}"' if o["action"] is not None else "") + (f' style="{o["style"]}"' if o.get("style") else "") + "/>"
        out.append(f'<wsdl:operation name="{o["name"]}">{soap_op}'
                   f'<wsdl:input>{hdr}{body_in}</wsdl:input><wsdl:output>{body_out}</wsdl:output>' +
                   (f'<wsdl:fault name="{o["name"]}Fault"><soap:fault name="{o["name"]}Fault" use="literal"/></wsdl:fault>' if o["fault"] else "") +
                   "</wsdl:operation>")
    out.append("</wsdl:binding>")
    out.append(f'<wsdl:service name="{spec["service"]}"><wsdl:port name="{spec["service"]}Port" binding="tns:{spec["binding"]}">'
               f'<soap:address location="{spec["location"].replace("&", "&amp;")}"/></wsdl:port></wsdl:service>')
    out.append("</wsdl:definitions>")
    return "\n".join(out)


def _kids(draw, spec, kids, qualified=True):
    ns = spec["xsd_ns"]
    return "".join(f'<x:{c}>{draw(st.sampled_from(SIMPLE[t]))}</x:{c}>' for c, t in kids)


def _element(draw, spec, name):
    return f'<x:{name}>{_kids(draw, spec, spec["elements"][name])}</x:{name}>'


def _part_rpc(draw, spec, p):
    if "element" in p:
        return _element(draw, spec, p["element"])
    if p["type"] in SIMPLE:
        return f'<{p["name"]}>{draw(st.sampled_from(SIMPLE[p["type"]]))}</{p["name"]}>'
    return f'<{p["name"]}>{_kids(draw, spec, spec["types"][p["type"]])}</{p["name"]}>'


def envelope(draw, spec, op, side, fault=False):
    """The SOAP 1.1 envelope the WSDL prescribes for one message of an operation, with generated values."""
    head = ""
    if side == "input" and op["header"]:
        second = _element(draw, spec, op["header2"]["element"]) if op.get("header2") else ""
        head = f'<soapenv:Header>{_element(draw, spec, op["header"]["element"])}{second}</soapenv:Header>'
    if fault:
        detail = f'<detail>{_element(draw, spec, op["fault"]["element"])}</detail>' if op["fault"] else ""
        body = f'<soapenv:Fault><faultcode>soapenv:Server</faultcode><faultstring>{draw(st.sampled_from(["boom", "Bad request"]))}</faultstring>{detail}</soapenv:Fault>'
    elif (op.get("style") or spec["style"]) == "document":
        body = "".join(_element(draw, spec, p["element"]) for p in op[side])
    else:
        wrapper = op["name"] + ("Response" if side == "output" else "")
        body = f'<t:{wrapper}>' + "".join(_part_rpc(draw, spec, p) for p in op[side]) + f'</t:{wrapper}>'
    return (f'<soapenv:Envelope xmlns:soapenv="{SOAP_ENV}" xmlns:x="{spec["xsd_ns"]}" xmlns:t="{spec["tns"]}">{head}<soapenv:Body>{body}</soapenv:Body>'
            f'</soapenv:Envelope>')
