#!/venv/bin/python
"""Run checks against every kept seeded change and record which check catches which change.

usage: seedmatrix.py [ID ...]      (default: all of seeded/*)   env MATRIX_CHECKS="C01,C03" to run extra checks per seed
Writes seeded/RESULTS.json and meta.json["detected_by"].  /repo is restored after each run.
"""
import json, os, subprocess, sys, shutil
from pathlib import Path
V = Path(__file__).resolve().parent.parent
SEEDED = V / "seeded"


def sh(cmd, **kw):
    return subprocess.run(cmd, shell=True, capture_output=True, text=True, **kw)


def main():
    ids = sys.argv[1:] or sorted(p.name for p in SEEDED.iterdir() if p.is_dir())
    res_path = SEEDED / "RESULTS.json"
    results = json.loads(res_path.read_text()) if res_path.exists() else {}
    assert sh("git -C /repo diff --quiet").returncode == 0, "/repo not clean"
    for pid in ids:
        for d in sorted((SEEDED / pid).iterdir()):
            if not (d / "patch.diff").exists():
                continue
            key = f"{pid}/{d.name}"
            checks = [pid] + [c for c in os.environ.get("MATRIX_CHECKS", "").split(",") if c and c != pid]
            entry = results.setdefault(key, {})
            if sh(f"git -C /repo apply {d/'patch.diff'}").returncode != 0:
                entry["error"] = "patch does not apply to the current tree"
                print(key, "patch does not apply")
                continue
            try:
                for chk in checks:
                    if not (V / "checks" / f"{chk.lower()}.py").exists():
                        continue
                    before = set((V / "replay" / chk).glob("*.json")) if (V / "replay" / chk).exists() else set()
                    r = sh(f"/venv/bin/python {V}/run.py {chk} --tier quick", env=dict(os.environ, VERIF_SEED=os.environ.get("VERIF_SEED", "1")))
                    sigs = [l.split("signature=")[1].split(" ")[0] for l in r.stdout.splitlines() if "signature=" in l]
                    entry[chk] = {"exit": r.returncode, "signatures": sigs[:6]}
                    print(key, chk, "exit", r.returncode, sigs[:3])
                    for f in set((V / "replay" / chk).glob("*.json")) - before if (V / "replay" / chk).exists() else ():
                        f.unlink()       # replay files produced under a seeded change are not kept
            finally:
                sh("git -C /repo checkout -- .")
            meta = json.loads((d / "meta.json").read_text())
            meta["detected_by"] = sorted(c for c, v in entry.items() if isinstance(v, dict) and v.get("exit") == 1)
            (d / "meta.json").write_text(json.dumps(meta, indent=1))
    res_path.write_text(json.dumps(results, indent=1, sort_keys=True))


if __name__ == "__main__":
    main()
