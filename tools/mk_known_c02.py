#!/venv/bin/python
"""Builds the example cases for the C02 known findings (maintenance tool): hand-written SchemaSpecs + documents."""
import json, sys
from pathlib import Path
sys.path.insert(0, str(Path(__file__).resolve().parent.parent))
from vlib import bootstrap
bootstrap.bootstrap(reexec=False)
from checks import c02
from vlib import schemas as S
from vlib.core import Collector

XSI = 'xmlns:xsi="http://www.w3.org/2001/XMLSchema-instance"'
CFG = {"structure_style": "filenames", "unnest_classes": False, "format.frozen": False, "format.slots": False, "format.kw_only": True,
       "docstring_style": "reStructuredText", "relative_imports": False, "generic_collections": False, "max_line_length": 79}


def E(name, type, min=1, max=1, **kw):
    if isinstance(type, str):
        type = {"b": type}
    return {"k": "element", "name": name, "type": type, "min": min, "max": max, "nillable": False, "form": None, **kw}


def A(name, type, use="optional", **kw):
    if isinstance(type, str):
        type = {"b": type}
    return {"name": name, "type": type, "use": use, "form": None, **kw}


def P(kind, items, min=1, max=1):
    return {"k": kind, "min": min, "max": max, "items": list(items)}


def CT(content=None, attrs=(), **kw):
    return {"k": "complex", "content": content, "attrs": list(attrs), "mixed": False, "base": None, "abstract": False, "any_attr": False,
            "simple": None, **kw}


def ANON(t):
    return {"anon": t}


def ENUM(*values, base="string"):
    return {"k": "enum", "base": base, "values": list(values)}


def SPEC(root_ct, types=None, tns="urn:t", efd=True, afd=False):
    t = dict(types or {})
    t["RootType"] = root_ct
    return {"tns": tns, "efd": efd, "afd": afd, "types": t, "root": "root",
            "elements": {"root": E("root", {"t": "RootType"})}}


def case(spec, doc, compound=False, wrapper=False, **cfg):
    return {"spec": spec, "docs": [doc], "shape": {"compound_fields.enabled": compound, "wrapper_fields": wrapper},
            "cfg_a": {**CFG, **cfg}, "cfg_b": {**CFG, **cfg}}


R = f'<t:root xmlns:t="urn:t" {XSI}>'
CASES = {
 "element-default-in-compound-field": (
     case(SPEC(CT(P("choice", [P("sequence", [E("name", "int", default="0"), E("code", "string", default="abc")]), E("value", "string")]))),
          R + "<t:name/><t:code/></t:root>", compound=True),
     "empty elements with default values that land in a compound field are bound as '' and written under another choice"),
 "element-default-list-type": (
     case(SPEC(CT(P("sequence", [P("sequence", [E("item", ANON({"k": "list", "item": "int"}), default="0")], min=0)]))), R + "<t:item/></t:root>"),
     "an empty element of a list type with a default value inside an optional or repeating group is bound as an empty token list and dropped on output"),
 "element-fixed-in-compound-field": (
     case(SPEC(CT(P("choice", [E("info", "gYearMonth"), E("unit", "gYearMonth", fixed="2001-10")]))), R + "<t:unit/></t:root>", compound=True),
     "an empty element with a fixed value inside a choice whose alternatives share a type (compound field) cannot be bound"),
 "element-fixed-in-repeating-choice": (
     case(SPEC(CT(P("choice", [E("tag", "short", fixed="-32768"), E("b", "string")], max=None))), R + "<t:tag/><t:b>x</t:b></t:root>", compound=True),
     "an empty element with a fixed value inside a repeating choice (compound field) corrupts the values of its neighbours"),
 "nillable-empty-value": (
     case(SPEC(CT(P("sequence", [E("v", "string", nillable=True)]))), R + "<t:v></t:v></t:root>"),
     "an empty, non-nil value of a nillable element is read back as None and written as xsi:nil"),
 "nillable-optional-absent": (
     case(SPEC(CT(P("sequence", [E("a", "int"), E("v", "int", min=0, nillable=True)]))), R + "<t:a>1</t:a></t:root>"),
     "an absent optional nillable element is written back as an xsi:nil element"),
 "nillable-list-empty": (
     case(SPEC(CT(P("sequence", [E("a", "int"), E("v", ANON({"k": "list", "item": "int"}), min=0, max=3, nillable=True)]))), R + "<t:a>1</t:a></t:root>"),
     "an absent repeating nillable element of a list type is written back as an xsi:nil element"),
 "nillable-complex-empty-instance": (
     case(SPEC(CT(P("sequence", [E("v", ANON(CT(None, [A("flag", "boolean")])), nillable=True)]))), R + "<t:v/></t:root>"),
     "an empty, non-nil instance of a nillable complex element is written back as xsi:nil"),
 "two-nillable-alternatives-in-compound-field": (
     case(SPEC(CT(P("choice", [E("entry", "string", max=3, nillable=True), E("value", "int", max=3, nillable=True)]))),
          R + '<t:value xsi:nil="true"/></t:root>', compound=True),
     "None in a compound field names no element: with two nillable alternatives a nil element is written under the first one"),
 "qualified-element-below-unqualified-one-in-anonymous-root": (
     case({**SPEC(CT(None)), "types": {}, "elements": {"root": E("root", ANON(CT(P("sequence", [
               E("mid", ANON(CT(P("sequence", [E("name", ANON(CT(P("sequence", [E("leaf", "string")]))))]))), form=False)]))))}},
          R + "<mid><t:name><t:leaf>x</t:leaf></t:name></mid></t:root>"),
     "below a global element with an anonymous type, a qualified element inside an unqualified one is written unqualified (the writer hands "
     "down the parent element's namespace, the class nesting the parent class's; same root cause as C01 inherited-namespace-disagreement)"),
 "empty-complex-type-in-compound-field": (
     case(SPEC(CT(P("choice", [E("a", "int"), E("kind", ANON(CT(None)))], max=None))), R + "<t:kind/><t:a>1</t:a></t:root>", compound=True),
     "an element of an empty complex type is generated as `object`; its parsed value has no matching choice in a compound field (SerializerError)"),
 "anonymous-element-and-attribute-share-a-name": (
     case(SPEC(CT(P("sequence", [E("unit", ANON(CT(None, [A("flag", "boolean")])))]), [A("unit", ANON(ENUM("X", "Y")), use="required")])),
          R.replace(">", ' unit="X">') + '<t:unit flag="true"/></t:root>'),
     "an element and an attribute of one type that share a name and both have anonymous types collapse into one generated class; valid documents are rejected"),
 "mixed-child-binary-respelled": (
     case(SPEC(CT(P("sequence", [E("h", "hexBinary")]), mixed=True)), R + "x<t:h>0FB7</t:h></t:root>"),
     "a hexBinary / base64Binary / QName child of a mixed type loses its format or prefix binding when written back"),
 "wrapper-field-over-type-with-derived-types": (
     case(SPEC(CT(P("sequence", [E("item", {"t": "itemType"})])),
               {"itemType": CT(P("sequence", [E("v", "string")])),
                "Derived": CT(P("sequence", [E("name", "string", min=0)]), base="itemType")}),
          R + '<t:item xsi:type="t:Derived"><t:v>x</t:v><t:name>n</t:name></t:item></t:root>', wrapper=True),
     "wrapper_fields collapses an element whose type has derived types; an xsi:type substitution is rejected or dropped"),
 "wrapper-field-shares-name-with-sibling": (
     case(SPEC(CT(P("sequence", [E("name", "hexBinary"), E("item", ANON(CT(P("sequence", [E("name", "string")]))))]))),
          R + "<t:name>0FB7</t:name><t:item><t:name>green</t:name></t:item></t:root>", wrapper=True),
     "wrapper_fields: a wrapped element that shares its name with a sibling of the wrapper swaps values with it"),
 "wrapper-field-enum-default": (
     case(SPEC(CT(P("sequence", [E("value", ANON(CT(P("sequence", [E("note", ANON(ENUM("red")), default="red")]))))]))),
          R + "<t:value><t:note>red</t:note></t:value></t:root>", wrapper=True),
     "wrapper_fields over an element with an enumeration default: code generation fails (StopIteration in field_default_enum)"),
}

if __name__ == "__main__":
    out = []
    only = [a for a in sys.argv[1:] if not a.startswith("--")]
    for name, (c, what) in CASES.items():
        if only and name not in only:
            continue
        xsd = S.render_xsd(c["spec"])
        from lxml import etree
        try:
            schema = etree.XMLSchema(etree.fromstring(xsd.encode()))
            ok = schema.validate(etree.fromstring(c["docs"][0].encode()))
        except Exception as e:
            print(name, "SCHEMA ERROR", e); continue
        if not ok:
            print(name, "DOC INVALID", schema.error_log.last_error); continue
        fails = c02.execute(c, Collector())
        print(name, "->", [f.sig for f in fails])
        for f in fails[:1]:
            print("    ", f.what.splitlines()[0][:200])
            out.append({"property": "C02", "signature": f.sig, "what": what, "id": name, "mute": False, "example": c})
    # shrunk campaign cases kept as they were found (known_examples/C02/<id>.json)
    EXTRA = {"mixed-ambiguous-choices": "a mixed type whose children share a simple type is generated with ambiguous wildcard choices; the class cannot be bound "
                                        "(XmlContextError: Compound field contains ambiguous types)",
             "mixed-sibling-classes-confused": "mixed content with same-named children at different levels: a text child is bound through the wrapper class of a sibling of another type (Failed to convert value)",
             "unnest-disambiguation-classes-share-a-name": "compound fields + unnest_classes: the helper classes that disambiguate same-typed choices are named after the element; two of them from different types collide and one type's values are bound through the other's class",
             "mixed-tail-after-child-with-wildcard": "mixed content: the text that follows a child element whose own content ends in an xs:any element is moved inside that child"}
    for name, what in EXTRA.items():
        if only and name not in only:
            continue
        c = json.loads((Path(__file__).resolve().parent.parent / "known_examples" / "C02" / f"{name}.json").read_text())["case"]
        fails = c02.execute(c, Collector())
        print(name, "->", [f.sig for f in fails])
        for f in fails[:1]:
            print("    ", f.what.splitlines()[0][:200])
            out.append({"property": "C02", "signature": f.sig, "what": what, "id": name, "mute": False, "example": c})
    if "--write" in sys.argv:
        p = Path(__file__).resolve().parent.parent / "known_findings.json"
        d = json.loads(p.read_text())
        d["findings"] = [f for f in d["findings"] if f["property"] != "C02"] + out
        p.write_text(json.dumps(d, indent=1))
        print("written", len(out))
