#!/bin/sh
# usage: seedtest.sh <patch.diff> <ID> [tier]  -- apply a seeded change to /repo, run the check, undo.
P="$1"; ID="$2"; TIER="${3:-quick}"
cd /repo || exit 2
git diff --quiet || { echo "/repo not clean"; exit 2; }
git apply "$P" || { echo "patch does not apply"; exit 2; }
mkdir -p /tmp/seedreplay
( cd /verif && VERIF_SEED="${VERIF_SEED:-1}" /venv/bin/python run.py "$ID" --tier "$TIER" 2>&1 | grep -v "^  sig" | cut -c1-400 | tail -12 ); 
git -C /repo checkout -- . 
# replay files written while a seeded change was applied are not kept in place
if [ -d /verif/replay/$ID ]; then cd /verif && git status --porcelain replay/$ID | grep '^??' | awk '{print $2}' | while read f; do mv "$f" /tmp/seedreplay/ 2>/dev/null; done; fi
