#!/bin/sh
# usage: seedtest.sh <patch.diff> <ID> [tier]  -- apply a seeded change to /repo, run the check, undo.
P="$1"; ID="$2"; TIER="${3:-quick}"
cd /repo || exit 2
git diff --quiet || { echo "/repo not clean"; exit 2; }
git apply "$P" || { echo "patch does not apply"; exit 2; }
mkdir -p /tmp/seedreplay; ls /verif/replay/$ID 2>/dev/null > /tmp/seedreplay/before.$$
( cd /verif && VERIF_SEED="${VERIF_SEED:-1}" /venv/bin/python run.py "$ID" --tier "$TIER" 2>&1 | grep -v "^  sig" | cut -c1-400 | tail -12 ); 
git -C /repo checkout -- . 
# replay files written while a seeded change was applied are not kept
for f in $(ls /verif/replay/$ID 2>/dev/null); do grep -qx "$f" /tmp/seedreplay/before.$$ || mv "/verif/replay/$ID/$f" /tmp/seedreplay/; done; rm -f /tmp/seedreplay/before.$$
