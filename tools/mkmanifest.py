#!/venv/bin/python
"""Regenerates /verif/MANIFEST.json from the table below (kept in one place so it stays valid)."""
import json, sys
from pathlib import Path
V = Path(__file__).resolve().parent.parent
BASE = json.load(open("/root/.vp/BASELINE.json"))["cmd"] if Path("/root/.vp/BASELINE.json").exists() else \
    "cd /repo && /venv/bin/python -m pytest -ra -q -p no:cacheprovider --timeout=900 --continue-on-collection-errors --junitxml=<file>"

CHECKS = {
 "C17": dict(cat="exploration", ref="§C17, §1.1",
    tech="property-based testing (Hypothesis) over generated WSDL 1.1 / SOAP 1.1 definitions with a reference model of the prescribed envelopes (written from the WsdlSpec alone) and a recording Transport: oracles = service-description fields against the spec, strict parse of the prescribed request into the generated input class, infoset equality of the posted payload with the prescribed request, required HTTP headers and endpoint, and round trip of canned responses and faults through Client.send",
    text="Generated search over definitions (1-4 operations, document/rpc style, parts by element or by builtin/complex type, one or two soap:headers (in messages of their own or next to the body parts) and faults, per-operation style overrides, omitted soapAction, inline or imported schema, definitions split over two documents with wsdl:import, varied namespaces, endpoints and SOAPAction strings) and generator options; per operation one request, one response and one fault envelope. Searched, not proved.",
    note="Stand-ins for click/jinja2/toposort/requests, no ruff; the transport is alternately a recording implementation of xsdata's Transport interface and xsdata's own DefaultTransport over a recording session object (SOAP faults arrive with HTTP 500); no network. Output messages are named <operation>Response so that the operation-name and message-name readings of the rpc response wrapper coincide (SOAP 1.1 section 7.1 leaves that name open)."),
 "C16": dict(cat="exploration", ref="§C16, §1.1",
    tech="property-based testing (Hypothesis) over generated DTDs: a DtdSpec generator renders the external DTD and builds documents valid by construction; oracles = libxml2 DTD validation of inputs and (in the order-preserving fragment) outputs, and equality of the infosets of doc and serialize(parse(doc)) as libxml2 reports them with the DTD's attribute defaults and fixed values applied",
    text="Generated search over DTDs (EMPTY, ANY, #PCDATA, mixed, nested sequences/choices with ?, *, + on elements and groups; CDATA, ID, IDREF(S), NMTOKEN(S) and enumerated attributes with #REQUIRED/#IMPLIED/#FIXED/default), 1-3 documents each and generator options. Generation must succeed and import, every document must parse strictly, and the default-augmented infoset must survive the round trip (ordered and DTD-valid where repetition is confined to single elements and, with compound fields, choices of single elements). Searched, not proved.",
    note="Stand-ins for click/jinja2/toposort, no ruff. Every content model uses an element name once (deterministic models). Recorded findings excluded by construction: xmlns declarations in the DTD, text after an ANY child in mixed content, compound fields over a choice with a sequence alternative."),
 "C13": dict(cat="exploration", ref="§C13, §1.1",
    tech="property-based testing (Hypothesis) with a hidden-model round trip: instance documents of a generated regular model (SchemaSpec with one declaration per element name; JSON object shapes) are the only input of the code generator; oracles = strict parse of every sample into the generated root class (unknown properties/attributes and converter warnings are errors) and equality of the re-serialized sample (canonical infoset from an independent libxml2 parse; JSON modulo key order and nulls)",
    text="Generated search over hidden models (nested groups with occurrence ranges, attributes, qualified/unqualified forms, mixed and simple content, recursion, every inferable builtin type; JSON objects with nested objects, arrays of scalars/objects, optional keys, nulls, empty arrays), 1-4 samples per model with canonical value spellings, and generator options. Searched, not proved.",
    note="Stand-ins for click/jinja2/toposort, no ruff. Element order is compared only where the hidden model has no repeated element or group and, with several samples, leaves the greedy merge of field orders no choice. Regions of the 12 recorded findings are excluded by construction (nil in some samples; elements that are empty in some samples and not in others; attributes missing from some samples of a childless element; array keys absent from a sample; keys that only hold null/[])."),
 "C12": dict(cat="exploration", ref="§C12, §1.1",
    tech="property-based testing (Hypothesis) with a differential oracle across invocation routes: generated source sets (SchemaSpec schemas, XML sample sets, the repository's fixture source sets) x generated configurations are generated in fresh interpreters through the API under three PYTHONHASHSEED values, the API twice in one interpreter, the command line with flags, the command line with a project file, and the command line with --cache cold then warm; all file trees must be byte-identical",
    text="Generated search; per case eight to eleven generator runs in separate processes (hash seeds, API twice, API after a run with other settings, command line with flags, project file, warm cache), compared path by path and byte by byte with the API run under PYTHONHASHSEED=0 (outcomes compared when generation is refused). Searched, not proved; the hash seeds are 2 of 8 fixed values per case.",
    note="Stand-ins for click/jinja2/toposort, no ruff; the click stand-in implements the documented parsing of the declarations xsdata uses, and options the command line does not expose travel in a partial project file. Recorded finding: warm sources cache with WSDL input (excluded by construction, replayed)."),
 "C07": dict(cat="exploration", ref="§C07, §1.1",
    tech="property-based testing (Hypothesis) over generated source sets with a hostile name alphabet (XML Schemas from the SchemaSpec generator, sets of schemas importing each other, irregular XML samples, irregular JSON samples) x the whole output-option space; oracles = outcome classification (success or the generator's own CodegenError), import of every generated module, XmlContext.build + instantiation of every generated class, AST scan of the generated source for names bound twice",
    text="Generated search: per case one source set and one point of the option space (structure style, compound fields incl. forced default name, wrapper fields, unnest, frozen/slots/eq/order/kw_only/unsafe_hash/repr, docstring style, naming case and safe prefix per name kind, relative imports, generic collections, line length, header). Generation must end in success or CodegenError; every module must import; every dataclass must yield binding metadata and accept construction; no class body may bind a field twice and no module or class body a class twice. Searched, not proved.",
    note="Stand-ins for click/jinja2/toposort, no ruff. DTD and WSDL sources are exercised by C16/C17 only with plain names. Class-name schemes stay upper-case and field-name schemes lower-case (with one scheme for both a field and its inner class share a name by configuration); safe prefixes are letters. Regions of the 13 recorded findings (known_findings.json) are excluded by construction: `type` and letter-less names, empty / __class__ JSON keys, <Name>Type named types, XML samples with mixed content, case-colliding names or one local name in two namespaces, multi-sample / multi-namespace sets under non-cluster styles."),
 "C02": dict(cat="exploration", ref="§C02, §1.1",
    tech="property-based testing (Hypothesis) over generated XML Schemas: a SchemaSpec generator renders the XSD and builds instance documents valid by construction; oracles = libxml2 XSD validation of schema, inputs and (in the order-preserving fragment) outputs, a typed default-augmented infoset comparison of serialize(parse(doc)) with doc, and a metamorphic comparison between two generator configurations that differ only in output-only options",
    text="Generated search: per case one schema (namespaces and forms, named/anonymous complex types, nested sequence/choice/all particles with occurrence ranges, element refs, substitution groups, named groups, attribute groups, simple types by restriction/list/union/enumeration, attributes with use/default/fixed, wildcards, extension with xsi:type and abstract bases, nillable, simple content, recursion), 1-3 documents, two generator configurations. Generation must succeed, the package import, every document parse under the strictest settings, the typed unordered infoset survive the round trip, the ordered infoset and schema validity survive it in the order-preserving fragment, and both configurations agree. Searched, not proved.",
    note="Code generation runs through stand-ins for click/jinja2/toposort and without ruff (self-tested against the 28 committed fixture outputs, AST-equal). Global element refs, substitution groups, named groups and attribute groups are generated; a second family generates 3-5 schemas importing each other (type names recurring across namespaces); xs:include and mixed content are not generated (mixed: four recorded findings), wrapper_fields stays off and the regions of the recorded findings (known_findings.json, 19 entries) are excluded by construction. 'Circular Dependencies' / 'strongly connected types' CodegenErrors are accepted as the documented refusal for non-cluster structure styles."),
 "C19": dict(cat="exploration", ref="§C19",
    tech="schedule exploration with a harness-owned cooperative scheduler (yield points = traced lines touching shared state, installed with threading.settrace): exhaustive single-preemption enumeration for fixed program pairs + property-based (Hypothesis) generation of thread programs and multi-preemption schedules + a free-running stress run; oracle = differential against the sequential outcome on fresh instances",
    text="Threads run generated programs over one shared XmlContext and shared parsers/serializers; the scheduler owns every interleaving decision at line granularity inside the anchored code. Every single preemption of 24 two-thread program pairs is explored, plus generated schedules with up to 4 preemptions for 2-4 threads; each operation's outcome must equal its sequential outcome. Exhaustive for single preemptions of the listed pairs at the chosen yield points, searched elsewhere.",
    note="Interleavings are modelled at line granularity in context.py (shared-cache lines), models/elements.py, parsers/nodes/union.py and the parser entry points only; no source hooks are used. Recorded warnings are not compared (warnings.catch_warnings is process-global)."),
 "C14": dict(cat="exploration", ref="§C14",
    tech="bounded-exhaustive enumeration of operation histories + Hypothesis rule-based state machine (stateful testing); oracle = differential against freshly constructed context/parser/serializer instances after every step",
    text="All histories of length <= 2 (thorough: <= 3) over a pool of ~45 parse/serialize/encode/decode operations on colliding models, plus random histories of up to 30 steps from a rule-based state machine; after every step the outcome on the shared instances (value or exception type) must equal that of fresh instances. Exhaustive for the short histories, searched for the long ones.",
    note="The operation pool is fixed (hand-built colliding models and documents); fresh and shared instances see the same loaded classes."),
 "C11": dict(cat="exploration", ref="§C11",
    tech="bounded-exhaustive enumeration of small XML trees + property-based testing (Hypothesis) of larger ones; oracles = reference AnyElement image from an independent libxml2 parse, canonical-infoset round trip through both writers, reference model of the wildcard namespace keywords",
    text="All trees with 1 node (full alphabet), 2 nodes (medium) and 3 nodes (reduced) plus generated trees up to depth 6 are parsed by TreeParser and inside typed models with single/list/mixed/choice wildcards under every namespace constraint, by both handlers; the bound generic tree must equal the documented image, serialization must reproduce the input infoset, and admissibility must follow the namespace keyword semantics. Exhaustive for the enumerated sub-domains, searched elsewhere.",
    note="Attribute values avoid the documented prefix expansion; xsi:type'd primitives (incl. locally declared and re-bound prefixes) are a labelled sub-check; numeric datatype narrowing (xs:int -> xs:short) is tolerated as documented."),
 "C15": dict(cat="fault_enumeration", ref="§C15",
    tech="fault enumeration over generated valid documents (Hypothesis supplies models/instances; faults are enumerated: truncation at every offset, byte flips, per-element structural edits, per-value hostile replacements, xsi:type/nil corruption, prefix/root faults, appended/prepended junk, random bytes; JSON shape replacement/deletion/truncation/flips), with and without parser reuse; oracle = allowed outcome set + two-parser (libxml2, expat) malformedness agreement for the pure-Python handler",
    text="Every enumerated single-point fault of every generated document must end in an instance of the requested class or in ParserError/ConverterError/XmlContextError/XmlHandlerError within the time bound, for the lxml handler, the pure-Python handler, JsonParser and DictDecoder; documents that libxml2 (strict) and expat both reject must be rejected by the pure-Python handler. Truncation is exhaustive per document; the other families are enumerated at a generated stride.",
    note="The lxml handler uses recover=True by design and is not required to reject malformed input; documents above 2 KB are skipped; exception buckets are keyed by (route, exception type, innermost xsdata frame)."),
 "C10": dict(cat="exploration", ref="§C10",
    tech="property-based testing (Hypothesis): generated models x valid documents x injections (unknown elements with arbitrary subtrees, unknown attributes, xsi attributes, unconvertible values; unknown JSON keys and values) x the 8 fail_on_* combinations x both handlers / dict and JSON decoders; oracle = the documented truth table with the un-injected parse as reference",
    text="Generated search; for every injection the outcome must be exactly what the option combination prescribes: ParserError iff the matching fail_on_* option is on, otherwise an object structurally equal to the un-injected parse (or to the instance with the raw value kept, plus a ConverterWarning). Searched, not proved.",
    note="Injection points and typed leaves come from the ModelSpec via vlib/expect.py; unknown keys/values of nested JSON objects behind union/base typed fields are outside the claim (documented best-match limitation)."),
 "C09": dict(cat="exploration", ref="§C09",
    tech="property-based testing (Hypothesis) with a metamorphic oracle: a harness-side XML writer re-writes the document (prefixes, default namespace, declaration placement, attribute order, inter-element whitespace, comments/PIs, CDATA, character references, encodings/BOM, blanks around non-string values, XInclude) driven by a generated choice tape; parse(rewritten) must equal parse(original)",
    text="Generated models and instances; the document xsdata writes is rewritten without changing its infoset (self-checked with an independent libxml2 parse) using 2-8 rewrite kinds per case; both handlers must bind the rewritten document to an object structurally equal to the one bound from the original. Searched, not proved.",
    note="Typing knowledge for the rewrites (QName-valued, non-string, element-only) comes from the ModelSpec via vlib/expect.py; with XInclude the pure-Python handler is only exercised on documents without QName-valued content (documented ElementTree prefix loss)."),
 "C03": dict(cat="exploration", ref="§C03, §3.3, §3.5",
    tech="property-based testing (Hypothesis): generated models x instances x user prefix maps x writers; oracles = two independent XML parsers (libxml2 strict, expat namespace mode) + an independent reference reading of the metadata compared node by node with values checked through a reference lexical model",
    text="Generated search over models, instances (all of Unicode, XML-illegal code points in a labelled fraction), both writers and user prefix maps (default namespace, collisions with generated prefixes, duplicates, hostile prefixes). The output must be well-formed for two independent parsers and equal - names, namespaces, nesting, order, xsi:nil/xsi:type, typed values, QName content resolved in scope - to the document vlib/expect.py derives from the ModelSpec alone; hostile input may instead raise a ValueError-derived xsdata error. Searched, not proved.",
    note="Trusts vlib/expect.py (independent implementation of docs/models/*.md), vlib/xsdref.py and the two parsers; recorded findings excluded by construction and replayed."),
 "C08": dict(cat="exploration", ref="§C08, §3.3",
    tech="property-based testing (Hypothesis) with differential oracles: lxml writer vs pure-Python writer vs TreeSerializer on a canonical infoset; {lxml, native} handlers x {bytes, str, path, file object, tree, element} sources on structural equality",
    text="Generated models, instances and configurations; the three writer back ends must yield the same canonical infoset (prefix-independent, declaration-sensitive), and every handler/source combination must yield structurally equal objects (or all raise) for the written document and for variants decorated with comments and processing instructions between elements and inside character data. Searched, not proved.",
    note="Canonical infoset from an independent strict libxml2 parse; ElementTree sources only where the documented loss of prefixes cannot matter; recorded finding (comments inside text of pre-parsed lxml trees) excluded by construction and replayed."),
 "C18": dict(cat="exploration", ref="§C18",
    tech="property-based testing (Hypothesis): generated models x instances; oracle = exec of the rendered source in an empty namespace + structural equality",
    text="Generated search over binding models (inner classes, nested and mixin enums, inheritance, frozen/tuple models, generic elements, attribute maps, non-empty default factories) and instances with every documented value type; the rendered Python source must run in an empty namespace (imports sufficient) and bind the requested variable to a structurally equal object. Searched, not proved.",
    note="Model modules are registered in sys.modules so emitted imports can resolve; structural equality is the harness's own (list vs tuple, bool vs int, NaN, signed zero)."),
 "C04": dict(cat="exploration", ref="§C04",
    tech="property-based testing (Hypothesis): generated models x instances x {dict,filter-none} x {DictEncoder/Decoder, JsonSerializer/Parser}; round-trip oracle + JSON-native walk + json.dumps/loads differential",
    text="Generated search over binding models with an unambiguous dictionary image, instances and routes; oracles: decode(encode(x)) structurally equals x, the encoded structure is JSON-native and survives json.dumps/json.loads. A dedicated family exercises the documented best-match scoring between candidate models. Searched, not proved.",
    note="Models are confined to those the docs do not declare ambiguous for JSON; recorded findings (generic elements under FILTER_NONE, formats / numeric enumerations in compound choices) are excluded by construction and replayed from known_findings.json."),
 "C01": dict(cat="exploration", ref="§C01, §3.2",
    tech="property-based testing (Hypothesis): generated binding models x instances x configurations, round-trip oracle with structural equality; collect-bucket-shrink",
    text="Generated search over binding models (ModelSpec generator: all documented field kinds and metadata, inheritance with xsi:type, namespaces, name generators, frozen/slots/kw_only), instances and serializer/parser configurations (both writers, both handlers, indentation, declaration, encodings, user prefix maps aimed at the model's namespaces, default-attribute suppression, shared or separate context). Oracle: parse(serialize(x)) structurally equals x under the strictest parser settings. Searched, not proved.",
    note="Generator confined to the documented fragment (DESIGN §3.2 soundness list); regions covered by recorded findings are excluded by construction and replayed from known_findings.json."),
 "C05": dict(cat="exploration", ref="§C05, §3.5",
    tech="property-based testing (Hypothesis): round-trip + by-construction lexical/value reference model + libxml2 differential; bounded-exhaustive datatype boundaries",
    text="Generated search (thousands of cases per run, 16-way sharded) over Python values, XSD-valid lexical forms built from the grammar, candidate type lists and enumerations; oracles are an independent lexical/value model (exact Fraction arithmetic) and libxml2's XSD validator. Searched, not proved; integer/float datatype boundaries are enumerated completely.",
    note="Trusts vlib/xsdref.py (reference model written from XSD 1.1 part 2) and libxml2 2.14 as XSD 1.0 validator; does not assert rejection of invalid strings."),
 "C06": dict(cat="exploration", ref="§C06, §3.5",
    tech="bounded-exhaustive enumeration of calendar/offset/time/duration tables + property-based testing (Hypothesis) against an exact integer-nanosecond reference timeline; libxml2 differential on formatted output",
    text="Complete enumeration of the finite sub-domains the statement names (every month/day pair for eight year classes, all 1681 zone offsets, fraction lengths 1-9, hour-24 forms, all duration component subsets, every impossible time of day) plus generated search over by-construction lexical forms, stdlib conversions and adversarially close comparison pairs. Searched, not proved, outside the enumerated tables.",
    note="Trusts vlib/xsdref.py (proleptic Gregorian calendar, XSD 1.1 year numbering) and libxml2 for year != 0; out-of-range zone offsets and mixed offset/no-offset comparisons are outside the claim."),
}
NOT_YET = {}

def main():
    props = [json.loads(l) for l in open(V / "properties.jsonl")]
    checks, na = [], []
    for p in props:
        pid = p["id"]
        c = CHECKS.get(pid)
        if c and (V / "checks" / f"{pid.lower()}.py").exists():
            checks.append({
                "property_id": pid,
                "quick_cmd": f"/venv/bin/python /verif/run.py {pid} --tier quick",
                "thorough_cmd": f"/venv/bin/python /verif/run.py {pid} --tier thorough",
                "evidence_file": f"/verif/evidence/{pid}.json",
                "replay_cmd_template": f"/venv/bin/python /verif/run.py {pid} --replay {{path}}",
                "engine": "hypothesis-runner",
                "level_claimed": {"category": c["cat"], "text": c["text"], "design_ref": c["ref"]},
                "level_note": c["note"],
                "technique": c["tech"],
            })
        else:
            na.append({"property_id": pid, "reason": NOT_YET.get(pid, "check not built yet in this session (planned: see DESIGN.md §4); not claimed until it is registered")})
    m = {
        "version": 1,
        "setup_cmd": "/venv/bin/python /verif/run.py --setup",
        "hooks": {"guard": "XSDATA_VERIF", "enable": "no source hooks: all instrumentation is external (stand-in packages on sys.path, sys.monitoring line events for C19)",
                  "baseline_off_cmd": BASE, "source_commits": [], "add_only": True},
        "engines": [{"name": "hypothesis-runner", "path": "/verif/run.py", "serves_properties": [c["property_id"] for c in checks],
                     "kind_free_text": "Hypothesis 6.168 strategies/stateful + bounded-exhaustive enumeration, sharded over 16 processes; collect-bucket-shrink failure handling; plain-JSON replay files"}],
        "checks": checks,
        "notes": "See DESIGN.md. Exit 0 = held on everything explored (KNOWN-FINDING lines for entries of known_findings.json), 1 = unlisted violation, 2 = harness error.",
        "not_applicable": na,
    }
    (V / "MANIFEST.json").write_text(json.dumps(m, indent=1))
    try:
        import jsonschema
        jsonschema.validate(m, json.load(open("/root/.vp/MANIFEST.schema.json")))
        print("MANIFEST.json valid;", len(checks), "checks,", len(na), "not claimed")
    except ImportError:
        print("written (jsonschema not available to validate)")
if __name__ == "__main__":
    main()
