#!/venv/bin/python
"""Rebuilds the known-finding entries of one property from known_examples/<ID>/<finding-id>.json (shrunk campaign cases kept
as found) and known_examples/<ID>/WHAT.json ({finding-id: description}).  usage: mk_known_examples.py <ID> [--write]"""
import importlib, json, sys
from pathlib import Path
ROOT = Path(__file__).resolve().parent.parent
sys.path.insert(0, str(ROOT))
from vlib import bootstrap
bootstrap.bootstrap(reexec=False)
from vlib.core import Collector

if __name__ == "__main__":
    pid = sys.argv[1]
    mod = importlib.import_module("checks." + pid.lower())
    what = json.loads((ROOT / "known_examples" / pid / "WHAT.json").read_text())
    out = []
    for name, text in what.items():
        case = json.loads((ROOT / "known_examples" / pid / f"{name}.json").read_text())
        case = case.get("case", case)
        fails = mod.execute(case, Collector()) or []
        print(name, "->", [f.sig for f in fails])
        for f in fails[:1]:
            print("    ", f.what.splitlines()[0][:200])
            out.append({"property": pid, "signature": f.sig, "what": text, "id": name, "mute": False, "example": case})
    if "--write" in sys.argv:
        p = ROOT / "known_findings.json"
        d = json.loads(p.read_text())
        keep = [f for f in d["findings"] if f["property"] != pid or f["id"] not in what]
        d["findings"] = keep + out
        p.write_text(json.dumps(d, indent=1))
        print("written", len(out))
