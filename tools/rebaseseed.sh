#!/bin/sh
# usage: rebaseseed.sh <ID> <k> <edit.py> "<note>"  -- re-make a seeded change on the current /repo HEAD: edit.py (run in a scratch
# worktree) performs the same source change; the demo must pass before and fail after, the 263 baseline tests must pass with it.
ID="$1"; K="$2"; EDIT="$3"; NOTE="$4"; D=/verif/seeded/$ID/$K; WT=/tmp/seedrebase-$ID-$K
git -C /repo worktree add --detach "$WT" HEAD -q || exit 2
cd "$WT"
CLEAN=$( /venv/bin/python $D/demo.py >/dev/null 2>&1; echo $? )
/venv/bin/python "$EDIT" || { cd /; git -C /repo worktree remove --force "$WT"; exit 2; }
git diff > "$WT.diff"
mkdir -p "$WT.tmp"; TESTS=$( TMPDIR="$WT.tmp" /venv/bin/python -m pytest -q -p no:cacheprovider --timeout=900 --continue-on-collection-errors 2>&1 | tail -1 | sed 's/\x1b\[[0-9;]*m//g' )
PATCHED=$( /venv/bin/python $D/demo.py >/dev/null 2>&1; echo $? )
cd /; git -C /repo worktree remove --force "$WT"; rm -rf "$WT.tmp"
echo "$ID/$K clean_demo_exit=$CLEAN patched_demo_exit=$PATCHED tests='$TESTS'"
case "$TESTS" in *"263 passed"*) ;; *) echo "REJECT: tests"; exit 1;; esac
[ "$CLEAN" = 0 ] && [ "$PATCHED" != 0 ] || { echo "REJECT: demo"; exit 1; }
cp "$WT.diff" $D/patch.diff; rm -f "$WT.diff"
/venv/bin/python - "$D/meta.json" "$NOTE" "$TESTS" <<'P'
import json,sys
m=json.load(open(sys.argv[1])); m["rebased"]=sys.argv[2]; m.setdefault("confirmed",{})["tests_with_patch"]=sys.argv[3]
json.dump(m,open(sys.argv[1],"w"),indent=1)
P
echo REBASED $D
