#!/venv/bin/python
"""Pretty-print a replay file: model source, instance, config and the failure text."""
import json, sys
from pathlib import Path
sys.path.insert(0, str(Path(__file__).resolve().parent.parent))
from vlib import bootstrap
bootstrap.bootstrap(reexec=False)
d = json.loads(Path(sys.argv[1]).read_text())
case = d["case"]
print("signature:", d.get("signature"))
if "spec" in case:
    from vlib import models as M
    m = M.Model(case["spec"])
    print(m.src.split("import upper, suffix, cap\n")[-1])
    if "inst" in case:
        print("instance:", repr(m.decode(case["inst"]))[:3000])
    for k in case:
        if k not in ("spec", "inst"):
            print(f"{k}:", json.dumps(case[k])[:2000])
print("what:", d.get("what", "")[:1500])
