#!/venv/bin/python
"""Builds the example cases for the C04 known findings (maintenance tool)."""
import json, sys
from pathlib import Path
sys.path.insert(0, str(Path(__file__).resolve().parent.parent))
from vlib import bootstrap
bootstrap.bootstrap(reexec=False)
from checks import c04
from vlib.core import Collector
from tools.mk_known_c01 import cls, fld, spec

CFG = {"route": "json", "factory": "dict", "as_list": False, "indent": None, "shared_context": False, "ignore_default_attributes": False}
ANY = {"obj": "AnyElement", "kw": {"qname": "w", "text": "t", "tail": None, "children": [], "attributes": {"map": []}}}
CASES = {
 "generic-element-under-filter-none": ({"spec": spec([cls("R", [fld("w", "Wildcard", [], wild_ns="##any")])]),
     "inst": {"obj": 0, "kw": {"w": ANY}}, "more": [], "cfg": dict(CFG, factory="filter_none"), "no_guards": True},
     "an AnyElement (and DerivedElement) value encoded with DictFactory.FILTER_NONE loses its None keys and is no longer recognised by the decoder"),
 "compound-choice-format": ({"spec": spec([cls("R", [fld("c", "Elements", [], card="list", choices=[
        {"name": "b", "types": [{"p": "bytes16"}], "tokens": 0, "nillable": False}, {"name": "i", "types": [{"p": "int"}], "tokens": 0, "nillable": False}])])]),
     "inst": {"obj": 0, "kw": {"c": [{"b": "0a"}]}}, "more": [], "cfg": CFG},
     "a compound field choice that needs a `format` (bytes, datetime/date/time) cannot be encoded to a dictionary: the encoder only sees the compound field"),
 "compound-choice-int-enum": ({"spec": spec([cls("R", [fld("c", "Elements", [], card="list", choices=[
        {"name": "e", "types": [{"e": 0}], "tokens": 0, "nillable": False}, {"name": "s", "types": [{"p": "str"}], "tokens": 0, "nillable": False}])])],
        enums=[{"name": "E0", "base": "int", "values": [1, 2]}]),
     "inst": {"obj": 0, "kw": {"c": [{"enum": [0, "M0"]}]}}, "more": [], "cfg": CFG},
     "an enumeration over int/float values as a compound field choice is encoded as a JSON number which the decoder cannot match to the enumeration choice"),
}
if __name__ == "__main__":
    out = []
    for name, (case, what) in CASES.items():
        fails = c04.execute(case, Collector())
        print(name, "->", [f.sig for f in fails])
        for f in fails[:1]:
            print("    ", f.what.splitlines()[0][:200])
            out.append({"property": "C04", "signature": f.sig, "what": what, "id": name, "mute": False, "example": case})
    if "--write" in sys.argv:
        p = Path(__file__).resolve().parent.parent / "known_findings.json"
        d = json.loads(p.read_text())
        d["findings"] = [f for f in d["findings"] if f["property"] != "C04"] + out
        p.write_text(json.dumps(d, indent=1))
        print("written", len(out))
