#!/venv/bin/python
"""Print a codegen replay file compactly: signature, message, documents, xsd."""
import json, sys
d = json.load(open(sys.argv[1]))
n = int(sys.argv[2]) if len(sys.argv) > 2 else 3500
print(d["signature"]); print(d["what"][:n])
