#!/bin/sh
# usage: [SEEDSRC=/tmp/seed/out3] confirmseed.sh <ID> <k> [<k in seeded/>]   -- independently confirm a seeded change in a scratch worktree and keep it
ID="$1"; K="$2"; SRC=${SEEDSRC:-/tmp/seed/out}/$ID; DK="${3:-$K}"; WT=/tmp/seedconfirm-$ID-$K
git -C /repo worktree add --detach "$WT" HEAD -q || exit 2
cd "$WT"
CLEAN_DEMO=$( /venv/bin/python $SRC/demo$K.py >/dev/null 2>&1; echo $? )
git apply "$SRC/patch$K.diff" || { echo "patch does not apply"; cd /; git -C /repo worktree remove --force "$WT"; exit 2; }
mkdir -p "$WT.tmp"; TESTS=$( TMPDIR="$WT.tmp" /venv/bin/python -m pytest -q -p no:cacheprovider --timeout=900 --continue-on-collection-errors 2>&1 | tail -1 | sed 's/\x1b\[[0-9;]*m//g' )
PATCHED_DEMO=$( /venv/bin/python $SRC/demo$K.py >/dev/null 2>&1; echo $? )
cd /; git -C /repo worktree remove --force "$WT"; rm -rf "$WT.tmp"
echo "$ID/$K clean_demo_exit=$CLEAN_DEMO patched_demo_exit=$PATCHED_DEMO tests='$TESTS'"
case "$TESTS" in *"263 passed"*) ;; *) echo "REJECT: tests"; exit 1;; esac
[ "$CLEAN_DEMO" = 0 ] && [ "$PATCHED_DEMO" != 0 ] || { echo "REJECT: demo"; exit 1; }
D=/verif/seeded/$ID/$DK; mkdir -p $D
cp $SRC/patch$K.diff $D/patch.diff; cp $SRC/demo$K.py $D/demo.py
/venv/bin/python - "$SRC/meta$K.json" "$D/meta.json" "$TESTS" "$CLEAN_DEMO" "$PATCHED_DEMO" <<'P'
import json,sys
m=json.load(open(sys.argv[1]))
m["confirmed"]={"how":"scratch worktree of /repo HEAD: demo on clean tree, git apply patch.diff, repository test suite, demo again","tests_with_patch":sys.argv[3],"demo_exit_clean":int(sys.argv[4]),"demo_exit_patched":int(sys.argv[5])}
m.setdefault("detected_by", "")
json.dump(m,open(sys.argv[2],"w"),indent=1)
P
echo KEPT $D
