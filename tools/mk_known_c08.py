#!/venv/bin/python
"""Builds the example cases for the C08 known findings (maintenance tool)."""
import json, sys
from pathlib import Path
sys.path.insert(0, str(Path(__file__).resolve().parent.parent))
from vlib import bootstrap
bootstrap.bootstrap(reexec=False)
from checks import c08
from vlib.core import Collector
from tools.mk_known_c01 import cls, fld, spec, CFG

CASES = {
 "lxml-tree-with-comment-in-text": ({"spec": spec([cls("R", [fld("x", "Element", [{"p": "str"}], card="one", name="x")])]),
     "inst": {"obj": 0, "kw": {"x": "Hello world"}}, "cfg": CFG, "decorate": "comment-in-text", "no_guards": True},
     "a pre-parsed lxml tree/element that holds a comment or processing instruction inside character data: the lxml handler binds only the text before it"),
}
if __name__ == "__main__":
    out = []
    for name, (case, what) in CASES.items():
        fails = c08.execute(case, Collector())
        print(name, "->", [f.sig for f in fails])
        for f in fails[:1]:
            print("    ", f.what.splitlines()[0][:200])
            out.append({"property": "C08", "signature": f.sig, "what": what, "id": name, "mute": False, "example": case})
    if "--write" in sys.argv:
        p = Path(__file__).resolve().parent.parent / "known_findings.json"
        d = json.loads(p.read_text())
        d["findings"] = [f for f in d["findings"] if f["property"] != "C08"] + out
        p.write_text(json.dumps(d, indent=1))
        print("written", len(out))
