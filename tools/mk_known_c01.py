#!/venv/bin/python
"""Builds the example cases for the C01 known findings and prints their signatures (maintenance tool)."""
import json, sys
from pathlib import Path
sys.path.insert(0, str(Path(__file__).resolve().parent.parent))
from vlib import bootstrap
bootstrap.bootstrap(reexec=False)
from checks import c01
from vlib.core import Collector

CFG = {"writer": "lxml", "handler": "lxml", "indent": None, "xml_declaration": False, "ignore_default_attributes": False,
       "encoding": "UTF-8", "ns_map": None, "shared_context": False, "bytes": False}


def cls(pyname, fields, base=None, **meta):
    return {"name": pyname, "meta": meta, "base": base, "inner_of": None, "frozen": False, "slots": False, "kw_only": True,
            "eq": True, "fields": fields}


def fld(py, kind, types, card="opt", **kw):
    f = {"py": py, "kind": kind, "card": card, "tokens": 0, "nillable": False, "types": types, "_local": kw.get("name", py)}
    f.update(kw)
    return f


def spec(classes, root=0, ns=None, enums=()):
    return {"ns": ns, "enums": list(enums), "classes": classes, "root": root}


CASES = {}
# 1. "" in a nillable str element comes back as None
CASES["nillable-empty-string"] = ({"spec": spec([cls("R", [fld("x", "Element", [{"p": "str"}], nillable=True, name="x")])]),
                                   "inst": {"obj": 0, "kw": {"x": ""}}, "cfg": CFG},
    "'' in a nillable str/bytes element is written <x/> (no xsi:nil) but parsed back as None")
# 2. nil element with attributes: instance with only attribute content in a nillable field comes back as None
CASES["nil-drops-attributes"] = ({"spec": spec([cls("R", [fld("c", "Element", [{"c": 1}], nillable=True, name="c")]),
                                                 cls("C", [fld("a", "Attribute", [{"p": "str"}], card="one", name="a")])]),
                                   "inst": {"obj": 0, "kw": {"c": {"obj": 1, "kw": {"a": "v"}}}}, "cfg": CFG},
    "an instance without element/text content in a nillable field is written xsi:nil='true' with its attributes and parsed back as None")
# 3. xsi:type leaks into an ##any attribute map
CASES["xsi-type-in-attributes-map"] = ({"spec": spec([
        cls("R", [fld("c", "Element", [{"c": 1}], name="c", subs=[2])]),
        cls("B", [fld("m", "Attributes", [], card="map", wild_ns="##any")], name="BT"),
        cls("S", [], base=1, name="ST")]),
    "inst": {"obj": 0, "kw": {"c": {"obj": 2, "kw": {"m": {"map": []}}}}}, "cfg": CFG},
    "the xsi:type (and xsi:nil) attribute of an element is also stored in the class's ##any/##other wildcard attribute map")
# 5. serializer and parser hand a namespace-less child class different parent namespaces
CASES["inherited-namespace-disagreement"] = ({"spec": spec([
        cls("R", [fld("b", "Element", [{"c": 1}], name="b", namespace="")], namespace="urn:a"),
        cls("B", [fld("i", "Element", [{"c": 2}], name="i")]),
        cls("I", [fld("l", "Element", [{"p": "int"}], name="l")])]),
    "inst": {"obj": 0, "kw": {"b": {"obj": 1, "kw": {"i": {"obj": 2, "kw": {"l": 1}}}}}}, "cfg": CFG},
    "class without own namespace used under a field whose namespace differs from the parent class namespace: serializer inherits the written element's namespace, parser the parent class's; xsdata rejects its own output")
# 7. QName without namespace under a user default namespace
CASES["plain-qname-under-default-namespace"] = ({"spec": spec([cls("R", [fld("q", "Element", [{"p": "qname"}], card="one", name="q")], namespace="urn:a")]),
                              "inst": {"obj": 0, "kw": {"q": {"qn": "n"}}}, "cfg": dict(CFG, ns_map=[[None, "urn:a"]]), "no_guards": True},
    "a QName value (or xsi:type) in no namespace is written unprefixed under a default namespace and read back in that namespace")

if __name__ == "__main__":
    out = []
    for name, (case, what) in CASES.items():
        fails = c01.execute(case, Collector())
        sigs = [f.sig for f in fails]
        print(name, "->", sigs)
        for f in fails[:1]:
            print("    ", f.what.splitlines()[0][:200])
            out.append({"property": "C01", "signature": f.sig, "what": what, "id": name, "mute": False, "example": case})
    if "--write" in sys.argv:
        p = Path(__file__).resolve().parent.parent / "known_findings.json"
        d = json.loads(p.read_text())
        d["findings"] = [f for f in d["findings"] if f["property"] != "C01"] + out
        p.write_text(json.dumps(d, indent=1))
        print("written", len(out))
