#!/venv/bin/python
"""Builds the example cases for the C03 known findings (maintenance tool)."""
import json, sys
from pathlib import Path
sys.path.insert(0, str(Path(__file__).resolve().parent.parent))
from vlib import bootstrap
bootstrap.bootstrap(reexec=False)
from checks import c03
from vlib.core import Collector
from tools.mk_known_c01 import cls, fld, spec, CFG

CASES = {
 "plain-qname-under-default-namespace": ({"spec": spec([cls("R", [fld("q", "Element", [{"p": "qname"}], card="one", name="q")], namespace="urn:a")]),
     "inst": {"obj": 0, "kw": {"q": {"qn": "n"}}}, "cfg": dict(CFG, ns_map=[[None, "urn:a"]]), "no_guards": True},
     "a QName value (or xsi:type) in no namespace is written unprefixed under a default namespace, where it denotes a name in that namespace"),
 "inherited-namespace-disagreement": ({"spec": spec([
        cls("R", [fld("b", "Element", [{"c": 1}], name="b", namespace="")], namespace="urn:a"),
        cls("B", [fld("i", "Element", [{"c": 2}], name="i")]),
        cls("I", [fld("l", "Element", [{"p": "int"}], name="l")])]),
    "inst": {"obj": 0, "kw": {"b": {"obj": 1, "kw": {"i": {"obj": 2, "kw": {"l": 1}}}}}}, "cfg": CFG},
    "class without own namespace below a field whose namespace differs from the parent class namespace: the serializer "
    "gives grandchildren the namespace of the written element instead of the enclosing class namespace the metadata (and the parser) prescribe"),
}
if __name__ == "__main__":
    out = []
    for name, (case, what) in CASES.items():
        fails = c03.execute(case, Collector())
        print(name, "->", [f.sig for f in fails])
        for f in fails[:1]:
            print("    ", f.what.splitlines()[0][:200])
            out.append({"property": "C03", "signature": f.sig, "what": what, "id": name, "mute": False, "example": case})
    if "--write" in sys.argv:
        p = Path(__file__).resolve().parent.parent / "known_findings.json"
        d = json.loads(p.read_text())
        d["findings"] = [f for f in d["findings"] if f["property"] != "C03"] + out
        p.write_text(json.dumps(d, indent=1))
        print("written", len(out))
